//! C09 harness: drives the real `lattices::algebra` law checkers, `lattices::test::cartesian_power`
//! and the `lattices::semiring_application` types; writes the transcript for the Lean driver
//! `hvdrv_alg` and evaluates the property itself with an independent brute-force oracle.
use hv_common::{Args, Recorder, Rng, catch, quiet_panics};
use lattices::semiring_application::{
    BinaryTrust, ConfidenceScore, Cost, FuzzyLogic, Multiplicity, U32WithInfinity,
};
use lattices::test::cartesian_power;
use lattices::{Addition, Multiplication, One, Zero, algebra};
use std::collections::BTreeMap;

type E = u8;
type Tab = Vec<Vec<E>>;
const MAX_ITEMS: usize = 5;

/// run `$body` with `$a: &[E; N]` for the runtime length of `$v` (N = 0..=5)
macro_rules! with_arr {
    ($v:expr, |$a:ident| $body:expr) => {{
        let v: &[E] = $v;
        match v.len() {
            0 => { let $a: &[E; 0] = v.try_into().unwrap(); $body }
            1 => { let $a: &[E; 1] = v.try_into().unwrap(); $body }
            2 => { let $a: &[E; 2] = v.try_into().unwrap(); $body }
            3 => { let $a: &[E; 3] = v.try_into().unwrap(); $body }
            4 => { let $a: &[E; 4] = v.try_into().unwrap(); $body }
            5 => { let $a: &[E; 5] = v.try_into().unwrap(); $body }
            _ => unreachable!("items longer than MAX_ITEMS"),
        }
    }};
}

// ------------------------------------------------------------------ printing / parsing

fn show_nums(v: &[E]) -> String {
    if v.is_empty() { "-".into() } else { v.iter().map(|x| x.to_string()).collect::<Vec<_>>().join(",") }
}
fn show_tab(t: &Tab) -> String {
    t.iter().map(|r| r.iter().map(|x| x.to_string()).collect::<Vec<_>>().join(",")).collect::<Vec<_>>().join(";")
}
fn parse_nums(s: &str) -> Option<Vec<E>> {
    if s == "-" {
        return Some(vec![]);
    }
    s.split(',').map(|p| if p.is_empty() || !p.bytes().all(|b| b.is_ascii_digit()) { None } else { p.parse::<u64>().ok().and_then(|x| u8::try_from(x).ok()) }).collect()
}
fn show_res(r: Result<Result<(), &'static str>, String>) -> String {
    match r {
        Ok(Ok(())) => "ok".into(),
        Ok(Err(m)) => format!("err:{m}"),
        Err(_) => "panic".into(),
    }
}

// ------------------------------------------------------------------ the oracle: brute-force laws

fn ap(f: &Tab, a: E, b: E) -> E {
    f[a as usize][b as usize]
}
fn au(u: &[E], a: E) -> E {
    u[a as usize]
}
fn l_assoc(it: &[E], f: &Tab) -> bool {
    for &c in it { for &b in it { for &a in it {
        if ap(f, a, ap(f, b, c)) != ap(f, ap(f, a, b), c) { return false; }
    } } }
    true
}
fn l_comm(it: &[E], f: &Tab) -> bool {
    it.iter().all(|&x| it.iter().all(|&y| ap(f, x, y) == ap(f, y, x)))
}
fn l_idem(it: &[E], f: &Tab) -> bool {
    it.iter().all(|&x| ap(f, x, x) == x)
}
fn l_ident(it: &[E], f: &Tab, e: E) -> bool {
    it.iter().all(|&a| ap(f, e, a) == a && ap(f, a, e) == a)
}
fn l_inv(it: &[E], f: &Tab, e: E, b: &[E]) -> bool {
    it.iter().all(|&a| ap(f, a, au(b, a)) == e && ap(f, au(b, a), a) == e)
}
fn l_nzinv(it: &[E], f: &Tab, e: E, zero: E, b: &[E]) -> bool {
    it.iter().all(|&a| a == zero || (ap(f, a, au(b, a)) == e && ap(f, au(b, a), a) == e))
}
fn l_absorb(it: &[E], f: &Tab, z: E) -> bool {
    it.iter().all(|&a| ap(f, a, z) == z && ap(f, z, a) == z)
}
fn l_ldist(it: &[E], f: &Tab, g: &Tab) -> bool {
    for &a in it { for &b in it { for &c in it {
        if ap(g, a, ap(f, b, c)) != ap(f, ap(g, a, b), ap(g, a, c)) { return false; }
    } } }
    true
}
fn l_rdist(it: &[E], f: &Tab, g: &Tab) -> bool {
    for &a in it { for &b in it { for &c in it {
        if ap(g, ap(f, b, c), a) != ap(f, ap(g, b, a), ap(g, c, a)) { return false; }
    } } }
    true
}
fn l_nzd(it: &[E], f: &Tab, zero: E) -> bool {
    for &a in it { for &b in it {
        if a != zero && b != zero && ap(f, a, b) == zero { return false; }
    } }
    true
}
fn l_linear(it: &[E], f: &Tab, g: &Tab, q: &[E]) -> bool {
    // q(a + b) = q(a) + q(b)
    it.iter().all(|&a| it.iter().all(|&b| au(q, ap(f, a, b)) == ap(g, au(q, a), au(q, b))))
}
fn l_bilinear(itf: &[E], ith: &[E], f: &Tab, h: &Tab, g: &Tab, q: &Tab) -> bool {
    for &a in itf { for &b in itf { for &c in ith { for &d in ith {
        if ap(q, ap(f, a, b), c) != ap(g, ap(q, a, c), ap(q, b, c)) { return false; }
        if ap(q, a, ap(h, c, d)) != ap(g, ap(q, a, c), ap(q, a, d)) { return false; }
    } } } }
    true
}
fn l_monoid(it: &[E], f: &Tab, e: E) -> bool { l_assoc(it, f) && l_ident(it, f, e) }
fn l_cmonoid(it: &[E], f: &Tab, e: E) -> bool { l_monoid(it, f, e) && l_comm(it, f) }
fn l_semiring(it: &[E], f: &Tab, g: &Tab, z: E, o: E) -> bool {
    l_cmonoid(it, f, z) && l_monoid(it, g, o) && l_absorb(it, g, z) && l_ldist(it, f, g) && l_rdist(it, f, g)
}
fn l_ring(it: &[E], f: &Tab, g: &Tab, z: E, o: E, b: &[E]) -> bool { l_semiring(it, f, g, z, o) && l_inv(it, f, z, b) }
fn l_cring(it: &[E], f: &Tab, g: &Tab, z: E, o: E, b: &[E]) -> bool { l_ring(it, f, g, z, o, b) && l_comm(it, g) }

// ------------------------------------------------------------------ state + executing one line

struct St {
    dom: usize,
    bins: BTreeMap<String, Tab>,
    uns: BTreeMap<String, Vec<E>>,
    lists: BTreeMap<String, Vec<E>>,
    any_ok: bool,
    any_err: bool,
}
impl St {
    fn new(dom: usize) -> Self {
        St { dom, bins: BTreeMap::new(), uns: BTreeMap::new(), lists: BTreeMap::new(), any_ok: false, any_err: false }
    }
    fn konst(&self, s: &str) -> Option<E> {
        if s.is_empty() || !s.bytes().all(|b| b.is_ascii_digit()) {
            return None;
        }
        s.parse::<u64>().ok().filter(|&k| (k as usize) < self.dom).map(|k| k as E)
    }
}

fn run_chk(st: &mut St, args: &[&str], rec: &mut Recorder) -> Option<String> {
    let name = *args.first()?;
    let a = &args[1..];
    // every checker is called through closures over the lookup tables
    macro_rules! bin { ($i:expr) => {{ let t = st.bins.get(*a.get($i)?)?; t }}; }
    macro_rules! un { ($i:expr) => {{ let t = st.uns.get(*a.get($i)?)?; t }}; }
    macro_rules! list { ($i:expr) => {{ let t = st.lists.get(*a.get($i)?)?; t }}; }
    macro_rules! konst { ($i:expr) => {{ st.konst(a.get($i)?)? }}; }
    macro_rules! arity { ($n:expr) => { if a.len() != $n { return None; } }; }
    let (res, law): (Result<Result<(), &'static str>, String>, bool) = match name {
        "associativity" => { arity!(2); let (it, f) = (list!(0), bin!(1));
            (catch(|| with_arr!(it, |x| algebra::associativity(x, |p, q| ap(f, p, q)))), l_assoc(it, f)) }
        "commutativity" => { arity!(2); let (it, f) = (list!(0), bin!(1));
            (catch(|| with_arr!(it, |x| algebra::commutativity(x, |p, q| ap(f, p, q)))), l_comm(it, f)) }
        "idempotency" => { arity!(2); let (it, f) = (list!(0), bin!(1));
            (catch(|| with_arr!(it, |x| algebra::idempotency(x, |p, q| ap(f, p, q)))), l_idem(it, f)) }
        "semigroup" => { arity!(2); let (it, f) = (list!(0), bin!(1));
            (catch(|| with_arr!(it, |x| algebra::semigroup(x, &|p, q| ap(f, p, q)))), l_assoc(it, f)) }
        "identity" => { arity!(3); let (it, f, e) = (list!(0), bin!(1), konst!(2));
            (catch(|| with_arr!(it, |x| algebra::identity(x, |p, q| ap(f, p, q), e))), l_ident(it, f, e)) }
        "absorbing_element" => { arity!(3); let (it, f, z) = (list!(0), bin!(1), konst!(2));
            (catch(|| with_arr!(it, |x| algebra::absorbing_element(x, |p, q| ap(f, p, q), z))), l_absorb(it, f, z)) }
        "monoid" => { arity!(3); let (it, f, e) = (list!(0), bin!(1), konst!(2));
            (catch(|| with_arr!(it, |x| algebra::monoid(x, &|p, q| ap(f, p, q), e))), l_monoid(it, f, e)) }
        "commutative_monoid" => { arity!(3); let (it, f, e) = (list!(0), bin!(1), konst!(2));
            (catch(|| with_arr!(it, |x| algebra::commutative_monoid(x, &|p, q| ap(f, p, q), e))), l_cmonoid(it, f, e)) }
        "no_nonzero_zero_divisors" => { arity!(3); let (it, f, z) = (list!(0), bin!(1), konst!(2));
            (catch(|| with_arr!(it, |x| algebra::no_nonzero_zero_divisors(x, &|p, q| ap(f, p, q), z))), l_nzd(it, f, z)) }
        "inverse" => { arity!(4); let (it, f, e, b) = (list!(0), bin!(1), konst!(2), un!(3));
            (catch(|| with_arr!(it, |x| algebra::inverse(x, |p, q| ap(f, p, q), e, |p| au(b, p)))), l_inv(it, f, e, b)) }
        "group" => { arity!(4); let (it, f, e, b) = (list!(0), bin!(1), konst!(2), un!(3));
            (catch(|| with_arr!(it, |x| algebra::group(x, &|p, q| ap(f, p, q), e, &|p| au(b, p)))), l_monoid(it, f, e) && l_inv(it, f, e, b)) }
        "abelian_group" => { arity!(4); let (it, f, e, b) = (list!(0), bin!(1), konst!(2), un!(3));
            (catch(|| with_arr!(it, |x| algebra::abelian_group(x, &|p, q| ap(f, p, q), e, &|p| au(b, p)))),
             l_monoid(it, f, e) && l_inv(it, f, e, b) && l_comm(it, f)) }
        "nonzero_inverse" => { arity!(5); let (it, f, e, z, b) = (list!(0), bin!(1), konst!(2), konst!(3), un!(4));
            (catch(|| with_arr!(it, |x| algebra::nonzero_inverse(x, |p, q| ap(f, p, q), e, z, |p| au(b, p)))), l_nzinv(it, f, e, z, b)) }
        "left_distributes" => { arity!(3); let (it, f, g) = (list!(0), bin!(1), bin!(2));
            (catch(|| with_arr!(it, |x| algebra::left_distributes(x, |p, q| ap(f, p, q), |p, q| ap(g, p, q)))), l_ldist(it, f, g)) }
        "right_distributes" => { arity!(3); let (it, f, g) = (list!(0), bin!(1), bin!(2));
            (catch(|| with_arr!(it, |x| algebra::right_distributes(x, |p, q| ap(f, p, q), |p, q| ap(g, p, q)))), l_rdist(it, f, g)) }
        "distributive" => { arity!(3); let (it, f, g) = (list!(0), bin!(1), bin!(2));
            (catch(|| with_arr!(it, |x| algebra::distributive(x, &|p, q| ap(f, p, q), &|p, q| ap(g, p, q)))), l_ldist(it, f, g) && l_rdist(it, f, g)) }
        "semiring" => { arity!(5); let (it, f, g, z, o) = (list!(0), bin!(1), bin!(2), konst!(3), konst!(4));
            (catch(|| with_arr!(it, |x| algebra::semiring(x, &|p, q| ap(f, p, q), &|p, q| ap(g, p, q), z, o))), l_semiring(it, f, g, z, o)) }
        "ring" => { arity!(6); let (it, f, g, z, o, b) = (list!(0), bin!(1), bin!(2), konst!(3), konst!(4), un!(5));
            (catch(|| with_arr!(it, |x| algebra::ring(x, &|p, q| ap(f, p, q), &|p, q| ap(g, p, q), z, o, &|p| au(b, p)))), l_ring(it, f, g, z, o, b)) }
        "commutative_ring" => { arity!(6); let (it, f, g, z, o, b) = (list!(0), bin!(1), bin!(2), konst!(3), konst!(4), un!(5));
            (catch(|| with_arr!(it, |x| algebra::commutative_ring(x, &|p, q| ap(f, p, q), &|p, q| ap(g, p, q), z, o, &|p| au(b, p)))), l_cring(it, f, g, z, o, b)) }
        "integral_domain" => { arity!(6); let (it, f, g, z, o, b) = (list!(0), bin!(1), bin!(2), konst!(3), konst!(4), un!(5));
            (catch(|| with_arr!(it, |x| algebra::integral_domain(x, &|p, q| ap(f, p, q), &|p, q| ap(g, p, q), z, o, &|p| au(b, p)))),
             l_cring(it, f, g, z, o, b) && l_nzd(it, g, z)) }
        "field" => { arity!(7); let (it, f, g, z, o, b, c) = (list!(0), bin!(1), bin!(2), konst!(3), konst!(4), un!(5), un!(6));
            (catch(|| with_arr!(it, |x| algebra::field(x, &|p, q| ap(f, p, q), &|p, q| ap(g, p, q), z, o, &|p| au(b, p), &|p| au(c, p)))),
             l_cring(it, f, g, z, o, b) && l_nzinv(it, g, o, z, c)) }
        "linearity" => { arity!(4); let (it, f, g, q) = (list!(0), bin!(1), bin!(2), un!(3));
            (catch(|| algebra::linearity(it.as_slice(), |p, r| ap(f, p, r), |p, r| ap(g, p, r), |p| au(q, p))), l_linear(it, f, g, q)) }
        "bilinearity" => { arity!(6); let (itf, ith, f, h, g, q) = (list!(0), list!(1), bin!(2), bin!(3), bin!(4), bin!(5));
            (catch(|| algebra::bilinearity(itf.as_slice(), ith.as_slice(), |p, r| ap(f, p, r), |p, r| ap(h, p, r), |p, r| ap(g, p, r), |p, r| ap(q, p, r))),
             l_bilinear(itf, ith, f, h, g, q)) }
        _ => return None,
    };
    let got_ok = matches!(res, Ok(Ok(())));
    // the property: the checker succeeds exactly when the law holds on every tuple over `items`
    rec.check(got_ok == law, &format!("ok-iff-law@{name}"), &format!("chk {} : checker={} law_holds={law}", args.join(" "), show_res(res.clone())));
    rec.check(res.is_ok(), &format!("checker-panicked@{name}"), &args.join(" "));
    rec.count(&format!("chk:{name}:{}", if got_ok { "ok" } else { "err" }));
    if got_ok { st.any_ok = true } else { st.any_err = true }
    Some(show_res(res))
}

fn show_tuple(t: &[E]) -> String {
    if t.is_empty() { "()".into() } else { t.iter().map(|x| x.to_string()).collect::<Vec<_>>().join(",") }
}

fn cp_real(n: usize, items: &[E]) -> (Vec<Vec<E>>, Vec<usize>) {
    macro_rules! go { ($n:literal) => {{
        let mut it = cartesian_power::<E, $n>(items);
        let mut ts = vec![];
        let mut lens = vec![it.len()];
        while let Some(t) = it.next() {
            ts.push(t.iter().map(|x| **x).collect::<Vec<E>>());
            lens.push(it.len());
            if ts.len() > 5000 { break; }
        }
        (ts, lens)
    }}; }
    match n { 0 => go!(0), 1 => go!(1), 2 => go!(2), 3 => go!(3), _ => go!(4) }
}

/// independent enumeration: tuple number k has digit i = (k / len^i) % len
fn cp_expected(n: usize, items: &[E]) -> Vec<Vec<E>> {
    let len = items.len();
    if len == 0 { return vec![]; }
    let total = len.pow(n as u32);
    (0..total).map(|k| (0..n).map(|i| items[(k / len.pow(i as u32)) % len]).collect()).collect()
}

// ------------------------------------------------------------------ semiring applications

const LAWS: [&str; 8] = ["add-assoc", "add-comm", "add-zero", "mul-assoc", "mul-one", "mul-zero", "left-distrib", "right-distrib"];

trait App {
    type V: Copy + PartialEq;
    const NAME: &'static str;
    fn add(a: Self::V, b: Self::V) -> Option<Self::V>;
    fn mul(a: Self::V, b: Self::V) -> Option<Self::V>;
    fn zero() -> Self::V;
    fn one() -> Self::V;
}
struct Bt;
impl App for Bt {
    type V = bool;
    const NAME: &'static str = "BinaryTrust";
    fn add(a: bool, b: bool) -> Option<bool> { catch(|| BinaryTrust::verif_from(a).add_owned(BinaryTrust::verif_from(b)).verif_get()).ok() }
    fn mul(a: bool, b: bool) -> Option<bool> { catch(|| BinaryTrust::verif_from(a).mul_owned(BinaryTrust::verif_from(b)).verif_get()).ok() }
    fn zero() -> bool { BinaryTrust::new().zero() }
    fn one() -> bool { BinaryTrust::new().one() }
}
struct Mu;
impl App for Mu {
    type V = u32;
    const NAME: &'static str = "Multiplicity";
    fn add(a: u32, b: u32) -> Option<u32> { catch(|| Multiplicity::new(a).add_owned(Multiplicity::new(b)).verif_get()).ok() }
    fn mul(a: u32, b: u32) -> Option<u32> { catch(|| Multiplicity::new(a).mul_owned(Multiplicity::new(b)).verif_get()).ok() }
    fn zero() -> u32 { Multiplicity::new(7).zero() }
    fn one() -> u32 { Multiplicity::new(7).one() }
}
struct Co;
impl App for Co {
    type V = U32WithInfinity;
    const NAME: &'static str = "Cost";
    fn add(a: Self::V, b: Self::V) -> Option<Self::V> { catch(|| Cost::new(a).add_owned(Cost::new(b)).verif_get()).ok() }
    fn mul(a: Self::V, b: Self::V) -> Option<Self::V> { catch(|| Cost::new(a).mul_owned(Cost::new(b)).verif_get()).ok() }
    fn zero() -> Self::V { Cost::new(U32WithInfinity::Finite(7)).zero() }
    fn one() -> Self::V { Cost::new(U32WithInfinity::Finite(7)).one() }
}
struct Cs;
impl App for Cs {
    type V = f64;
    const NAME: &'static str = "ConfidenceScore";
    fn add(a: f64, b: f64) -> Option<f64> { catch(|| ConfidenceScore::new(a).add_owned(ConfidenceScore::new(b)).verif_get()).ok() }
    fn mul(a: f64, b: f64) -> Option<f64> { catch(|| ConfidenceScore::new(a).mul_owned(ConfidenceScore::new(b)).verif_get()).ok() }
    fn zero() -> f64 { ConfidenceScore::new(0.5).zero() }
    fn one() -> f64 { ConfidenceScore::new(0.5).one() }
}
struct Fz;
impl App for Fz {
    type V = f64;
    const NAME: &'static str = "FuzzyLogic";
    fn add(a: f64, b: f64) -> Option<f64> { catch(|| FuzzyLogic::new(a).add_owned(FuzzyLogic::new(b)).verif_get()).ok() }
    fn mul(a: f64, b: f64) -> Option<f64> { catch(|| FuzzyLogic::new(a).mul_owned(FuzzyLogic::new(b)).verif_get()).ok() }
    fn zero() -> f64 { FuzzyLogic::new(0.5).zero() }
    fn one() -> f64 { FuzzyLogic::new(0.5).one() }
}

fn letter<V: PartialEq>(l: Option<V>, r: Option<V>) -> char {
    match (l, r) {
        (Some(x), Some(y)) => if x == y { 'T' } else { 'F' },
        _ => 'P',
    }
}
fn both(a: char, b: char) -> char {
    if a == 'P' || b == 'P' { 'P' } else if a == 'T' && b == 'T' { 'T' } else { 'F' }
}
/// the eight semiring laws evaluated on the real operations
fn law_string<A: App>(a: A::V, b: A::V, c: A::V) -> String {
    let (add, mul) = (A::add, A::mul);
    let (zero, one) = (A::zero(), A::one());
    [
        letter(add(a, b).and_then(|x| add(x, c)), add(b, c).and_then(|x| add(a, x))),
        letter(add(a, b), add(b, a)),
        both(letter(add(a, zero), Some(a)), letter(add(zero, a), Some(a))),
        letter(mul(a, b).and_then(|x| mul(x, c)), mul(b, c).and_then(|x| mul(a, x))),
        both(letter(mul(a, one), Some(a)), letter(mul(one, a), Some(a))),
        both(letter(mul(a, zero), Some(zero)), letter(mul(zero, a), Some(zero))),
        letter(add(b, c).and_then(|x| mul(a, x)), mul(a, b).and_then(|x| mul(a, c).and_then(|y| add(x, y)))),
        letter(add(b, c).and_then(|x| mul(x, a)), mul(b, a).and_then(|x| mul(c, a).and_then(|y| add(x, y)))),
    ]
    .iter()
    .collect()
}
/// property oracle for one triple: every law must hold (`guard` = the no-overflow guard holds)
fn law_oracle<A: App>(s: &str, guard: bool, line: &str, rec: &mut Recorder) {
    for (i, ch) in s.chars().enumerate() {
        match ch {
            // both sides were computed and differ: a law violation, with or without overflow
            'F' => rec.check(false, &format!("semiring-law:{}@{}", LAWS[i], A::NAME), line),
            'P' => {
                // a panic is only acceptable when the guard (no overflow / operands in range) fails
                rec.check(!guard, &format!("semiring-op-panicked:{}@{}", LAWS[i], A::NAME), line);
                rec.count(&format!("srlaw:{}:guarded-panic", A::NAME));
            }
            _ => rec.check(true, "", ""),
        }
    }
    rec.count(&format!("srlaw:{}", A::NAME));
}

fn parse_bool(s: &str) -> Option<bool> { match s { "0" => Some(false), "1" => Some(true), _ => None } }
fn parse_u32(s: &str) -> Option<u32> {
    if s.is_empty() || !s.bytes().all(|b| b.is_ascii_digit()) || s.len() > 12 { return None; }
    s.parse::<u64>().ok().and_then(|x| u32::try_from(x).ok())
}
fn parse_cost(s: &str) -> Option<U32WithInfinity> {
    if s == "inf" { Some(U32WithInfinity::Infinity) } else { parse_u32(s).map(U32WithInfinity::Finite) }
}
fn show_cost(v: U32WithInfinity) -> String {
    match v { U32WithInfinity::Infinity => "inf".into(), U32WithInfinity::Finite(n) => n.to_string() }
}
fn parse_f64(s: &str) -> Option<f64> {
    if s.is_empty() || !s.bytes().all(|b| b.is_ascii_digit()) || s.len() > 20 { return None; }
    s.parse::<u64>().ok().map(f64::from_bits)
}
fn show_f64(x: f64) -> String { x.to_bits().to_string() }
fn show_opt<V>(v: Option<V>, sh: impl Fn(V) -> String) -> String { v.map(sh).unwrap_or_else(|| "panic".into()) }
fn in_unit(x: f64) -> bool { x >= 0.0 && x <= 1.0 }

fn fin(v: U32WithInfinity) -> Option<u64> { match v { U32WithInfinity::Finite(n) => Some(n as u64), _ => None } }

fn run_sr(args: &[&str], rec: &mut Recorder) -> Option<String> {
    let m = u32::MAX as u64;
    Some(match args {
        ["bt", "new"] => (BinaryTrust::new().verif_get() as u8).to_string(),
        ["bt", "zero"] => (Bt::zero() as u8).to_string(),
        ["bt", "one"] => (Bt::one() as u8).to_string(),
        ["bt", op @ ("add" | "mul"), a, b] => {
            let (a, b) = (parse_bool(a)?, parse_bool(b)?);
            let mut x = BinaryTrust::verif_from(a);
            if *op == "add" { x.add(BinaryTrust::verif_from(b)) } else { x.mul(BinaryTrust::verif_from(b)) }
            let r = x.verif_get();
            rec.check(r == if *op == "add" { a | b } else { a & b }, &format!("sr-value:{op}@BinaryTrust"), &args.join(" "));
            (r as u8).to_string()
        }
        ["mu", "zero"] => Mu::zero().to_string(),
        ["mu", "one"] => Mu::one().to_string(),
        ["mu", op @ ("add" | "mul"), a, b] => {
            let (a, b) = (parse_u32(a)?, parse_u32(b)?);
            let r = catch(move || {
                let mut x = Multiplicity::new(a);
                if *op == "add" { x.add(Multiplicity::new(b)) } else { x.mul(Multiplicity::new(b)) }
                x.verif_get()
            }).ok();
            let exact = if *op == "add" { a as u64 + b as u64 } else { a as u64 * b as u64 };
            rec.check(r.map(|v| v as u64) == if exact <= m { Some(exact) } else { None }, &format!("sr-value:{op}@Multiplicity"), &args.join(" "));
            rec.count(if r.is_some() { "sr:mu:value" } else { "sr:mu:panic" });
            show_opt(r, |v| v.to_string())
        }
        ["co", "zero"] => show_cost(Co::zero()),
        ["co", "one"] => show_cost(Co::one()),
        ["co", "add", a, b] => {
            let (a, b) = (parse_cost(a)?, parse_cost(b)?);
            let mut x = Cost::new(a);
            x.add(Cost::new(b));
            let r = x.verif_get();
            let want = match (fin(a), fin(b)) { (None, _) => b, (_, None) => a, (Some(p), Some(q)) => U32WithInfinity::Finite(p.min(q) as u32) };
            rec.check(r == want, "sr-value:add@Cost", &args.join(" "));
            show_cost(r)
        }
        ["co", "mul", a, b] => {
            let (a, b) = (parse_cost(a)?, parse_cost(b)?);
            let r = catch(move || { let mut x = Cost::new(a); x.mul(Cost::new(b)); x.verif_get() }).ok();
            match (fin(a), fin(b)) {
                // a cost that does not fit in u32 must not be answered with some other finite cost (F91: `+` wrapped in release)
                (Some(p), Some(q)) if p + q > m => { rec.check(r.is_none(), "sr-value:mul-overflow@Cost", &args.join(" ")); rec.count("sr:co:mul-overflow") }
                (Some(p), Some(q)) => rec.check(r == Some(U32WithInfinity::Finite((p + q) as u32)), "sr-value:mul@Cost", &args.join(" ")),
                _ => rec.check(r == Some(U32WithInfinity::Infinity), "sr-value:mul@Cost", &args.join(" ")),
            }
            show_opt(r, show_cost)
        }
        [app @ ("cs" | "fz"), "zero"] => show_f64(if *app == "cs" { Cs::zero() } else { Fz::zero() }),
        [app @ ("cs" | "fz"), "one"] => show_f64(if *app == "cs" { Cs::one() } else { Fz::one() }),
        [app @ ("cs" | "fz"), "new", a] => {
            let a = parse_f64(a)?;
            let r = if *app == "cs" { catch(move || { ConfidenceScore::new(a); }).is_ok() } else { catch(move || { FuzzyLogic::new(a); }).is_ok() };
            rec.check(r == in_unit(a), &format!("sr-new-range@{app}"), &args.join(" "));
            rec.count(if r { "sr:f64:new-ok" } else { "sr:f64:new-panic" });
            if r { "ok".into() } else { "panic".into() }
        }
        [app @ ("cs" | "fz"), op @ ("add" | "mul"), a, b] => {
            let (a, b) = (parse_f64(a)?, parse_f64(b)?);
            let r = match (*app, *op) {
                ("cs", "add") => catch(move || { let mut x = ConfidenceScore::new(a); x.add(ConfidenceScore::new(b)); x.verif_get() }).ok(),
                ("cs", _) => catch(move || { let mut x = ConfidenceScore::new(a); x.mul(ConfidenceScore::new(b)); x.verif_get() }).ok(),
                (_, "add") => catch(move || { let mut x = FuzzyLogic::new(a); x.add(FuzzyLogic::new(b)); x.verif_get() }).ok(),
                _ => catch(move || { let mut x = FuzzyLogic::new(a); x.mul(FuzzyLogic::new(b)); x.verif_get() }).ok(),
            };
            let want = if in_unit(a) && in_unit(b) {
                Some(match (*app, *op) { (_, "add") => if a < b { b } else { a }, ("cs", _) => a * b, _ => if b < a { b } else { a } })
            } else { None };
            rec.check(r.map(f64::to_bits) == want.map(f64::to_bits), &format!("sr-value:{op}@{app}"), &args.join(" "));
            show_opt(r, show_f64)
        }
        _ => return None,
    })
}

fn run_srlaw(args: &[&str], line: &str, rec: &mut Recorder) -> Option<String> {
    let m = u32::MAX as u128;
    Some(match args {
        ["bt", a, b, c] => { let s = law_string::<Bt>(parse_bool(a)?, parse_bool(b)?, parse_bool(c)?); law_oracle::<Bt>(&s, true, line, rec); s }
        ["mu", a, b, c] => {
            let (a, b, c) = (parse_u32(a)?, parse_u32(b)?, parse_u32(c)?);
            let s = law_string::<Mu>(a, b, c);
            // guard enforced by checked_add/checked_mul: no intermediate result exceeds u32::MAX
            let (x, y, z) = (a as u128, b as u128, c as u128);
            let guard = [x + y, y + z, x + y + z, x * y, y * z, x * y * z, x * z, x * (y + z), x * y + x * z].iter().all(|&v| v <= m);
            law_oracle::<Mu>(&s, guard, line, rec);
            s
        }
        ["co", a, b, c] => {
            let (a, b, c) = (parse_cost(a)?, parse_cost(b)?, parse_cost(c)?);
            let s = law_string::<Co>(a, b, c);
            // Cost::mul is a checked `+` on u32: it may panic (only) when the finite costs do not add up within u32
            let f = |v| fin(v).unwrap_or(0) as u128;
            let guard = f(a) + f(b) + f(c) <= m;
            law_oracle::<Co>(&s, guard, line, rec);
            s
        }
        ["cs", a, b, c] => {
            let (a, b, c) = (parse_f64(a)?, parse_f64(b)?, parse_f64(c)?);
            if !(in_unit(a) && in_unit(b) && in_unit(c)) {
                let p = catch(move || { ConfidenceScore::new(a); ConfidenceScore::new(b); ConfidenceScore::new(c); }).is_err();
                rec.check(p, "sr-new-range@cs", line);
                return Some("panic".into());
            }
            let s = law_string::<Cs>(a, b, c); law_oracle::<Cs>(&s, true, line, rec); s
        }
        ["fz", a, b, c] => {
            let (a, b, c) = (parse_f64(a)?, parse_f64(b)?, parse_f64(c)?);
            if !(in_unit(a) && in_unit(b) && in_unit(c)) {
                let p = catch(move || { FuzzyLogic::new(a); FuzzyLogic::new(b); FuzzyLogic::new(c); }).is_err();
                rec.check(p, "sr-new-range@fz", line);
                return Some("panic".into());
            }
            let s = law_string::<Fz>(a, b, c); law_oracle::<Fz>(&s, true, line, rec); s
        }
        _ => return None,
    })
}

fn exec(st: &mut St, line: &str, rec: &mut Recorder) -> String {
    let parts: Vec<&str> = line.split(' ').collect();
    let bad = || "bad-op".to_string();
    match parts.as_slice() {
        ["tab", name, rows] => {
            let t: Option<Tab> = rows.split(';').map(parse_nums).collect();
            match t {
                Some(t) if t.len() == st.dom && t.iter().all(|r| r.len() == st.dom && r.iter().all(|&x| (x as usize) < st.dom)) => {
                    st.bins.insert(name.to_string(), t);
                    "ok".into()
                }
                _ => bad(),
            }
        }
        ["un", name, es] => match parse_nums(es) {
            Some(t) if t.len() == st.dom && t.iter().all(|&x| (x as usize) < st.dom) => {
                st.uns.insert(name.to_string(), t);
                "ok".into()
            }
            _ => bad(),
        },
        ["items", name, es] => match parse_nums(es) {
            Some(t) if t.len() <= MAX_ITEMS && t.iter().all(|&x| (x as usize) < st.dom) => {
                rec.count(&format!("items:len={}", t.len()));
                st.lists.insert(name.to_string(), t);
                "ok".into()
            }
            _ => bad(),
        },
        ["chk", rest @ ..] => run_chk(st, rest, rec).unwrap_or_else(bad),
        ["props", i, f, e, b, z] => {
            let r = (|| {
                let (it, f, e, b, z) = (st.lists.get(*i)?, st.bins.get(*f)?, st.konst(e)?, st.uns.get(*b)?, st.konst(z)?);
                let got = catch(|| with_arr!(it, |x| algebra::get_single_function_properties(x, |p, q| ap(f, p, q), e, |p| au(b, p), z))).ok()?;
                let mut want = vec![];
                if l_assoc(it, f) { want.push("associativity") }
                if l_comm(it, f) { want.push("commutativity") }
                if l_idem(it, f) { want.push("idempotency") }
                if l_ident(it, f, e) { want.push("identity") }
                if l_inv(it, f, e, b) { want.push("inverse") }
                if l_absorb(it, f, z) { want.push("absorbing_element") }
                Some((got, want))
            })();
            match r {
                Some((got, want)) => {
                    rec.check(got == want, "props-list@get_single_function_properties", line);
                    rec.count(&format!("props:n={}", got.len()));
                    if got.is_empty() { "-".into() } else { got.join(",") }
                }
                None => bad(),
            }
        }
        [op @ ("cp" | "cplen"), n, i] => {
            let n = match n.parse::<usize>() { Ok(k) if k <= 4 && k.to_string() == *n => k, _ => return bad() };
            let Some(items) = st.lists.get(*i) else { return bad() };
            let (ts, lens) = cp_real(n, items);
            if *op == "cp" {
                let want = cp_expected(n, items);
                rec.check(ts == want, "cartesian-power-enumeration", &format!("{line} items={} got={} tuples want={}", show_nums(items), ts.len(), want.len()));
                rec.count(&format!("cp:N={n}:len={}", items.len()));
                if ts.is_empty() { "-".into() } else { ts.iter().map(|t| show_tuple(t)).collect::<Vec<_>>().join(";") }
            } else {
                let total = cp_expected(n, items).len();
                let want: Vec<usize> = (0..=total).map(|k| total - k).collect();
                rec.check(lens == want, "cartesian-power-len", line);
                lens.iter().map(|x| x.to_string()).collect::<Vec<_>>().join(",")
            }
        }
        ["sr", rest @ ..] => run_sr(rest, rec).unwrap_or_else(bad),
        ["srlaw", rest @ ..] => run_srlaw(rest, line, rec).unwrap_or_else(bad),
        _ => bad(),
    }
}

fn run_case(no: u64, tag: &str, lines: &[String], rec: &mut Recorder) {
    rec.case(no, tag);
    let dom = tag.split(' ').find_map(|w| w.strip_prefix("dom=")).and_then(|v| v.parse().ok()).unwrap_or(2usize);
    let mut st = St::new(dom);
    for l in lines {
        let out = exec(&mut st, l, rec);
        rec.line(l, &out);
    }
    if st.any_ok && st.any_err {
        rec.nontrivial();
    }
}

// ------------------------------------------------------------------ generation

fn tab_from(d: usize, f: impl Fn(usize, usize) -> usize) -> Tab {
    (0..d).map(|a| (0..d).map(|b| (f(a, b) % d) as E).collect()).collect()
}
fn un_from(d: usize, f: impl Fn(usize) -> usize) -> Vec<E> {
    (0..d).map(|a| (f(a) % d) as E).collect()
}
/// the k-th binary table over {0..d-1} in base-d digits
fn nth_tab(d: usize, mut k: usize) -> Tab {
    let mut t = vec![vec![0 as E; d]; d];
    for a in 0..d { for b in 0..d { t[a][b] = (k % d) as E; k /= d; } }
    t
}
fn nth_un(d: usize, mut k: usize) -> Vec<E> {
    (0..d).map(|_| { let x = (k % d) as E; k /= d; x }).collect()
}
fn rand_tab(rng: &mut Rng, d: usize) -> Tab {
    (0..d).map(|_| (0..d).map(|_| rng.below(d as u64) as E).collect()).collect()
}
fn rand_un(rng: &mut Rng, d: usize) -> Vec<E> {
    (0..d).map(|_| rng.below(d as u64) as E).collect()
}
fn perm(rng: &mut Rng, d: usize) -> Vec<usize> {
    let mut p: Vec<usize> = (0..d).collect();
    for i in (1..d).rev() { let j = rng.below(i as u64 + 1) as usize; p.swap(i, j); }
    p
}
fn relabel(t: &Tab, p: &[usize]) -> Tab {
    let d = t.len();
    let mut r = vec![vec![0 as E; d]; d];
    for a in 0..d { for b in 0..d { r[p[a]][p[b]] = p[t[a][b] as usize] as E; } }
    r
}
fn relabel_un(u: &[E], p: &[usize]) -> Vec<E> {
    let mut r = vec![0 as E; u.len()];
    for a in 0..u.len() { r[p[a]] = p[u[a] as usize] as E; }
    r
}
fn perturb(rng: &mut Rng, t: &mut Tab, k: u64) {
    let d = t.len() as u64;
    for _ in 0..k { let (a, b) = (rng.below(d) as usize, rng.below(d) as usize); t[a][b] = rng.below(d) as E; }
}
fn mul_inverse(d: usize) -> Vec<E> {
    un_from(d, |a| (0..d).find(|&b| (a * b) % d == 1).unwrap_or(0))
}

/// a catalogue of structured (f, g, zero, one, neg, inv) over {0..d-1}
fn structure(rng: &mut Rng, d: usize) -> (Tab, Tab, usize, usize, Vec<E>, Vec<E>, &'static str) {
    let neg = un_from(d, |a| (d - a) % d);
    let id = un_from(d, |a| a);
    match rng.below(9) {
        0 | 1 => (tab_from(d, |a, b| a + b), tab_from(d, |a, b| a * b), 0, 1 % d, neg, mul_inverse(d), "Zd"),
        2 => (tab_from(d, |a, b| a.max(b)), tab_from(d, |a, b| a.min(b)), 0, d - 1, id.clone(), id, "maxmin"),
        3 => (tab_from(d, |a, b| a.min(b)), tab_from(d, |a, b| a.max(b)), d - 1, 0, id.clone(), id, "minmax"),
        4 => (tab_from(d, |a, b| a.min(b)), tab_from(d, move |a, b| (a + b).min(d - 1)), d - 1, 0, id.clone(), id, "tropical"),
        5 => (tab_from(d, |a, b| a | b), tab_from(d, |a, b| a & b), 0, d - 1, id.clone(), id, "orand"),
        6 => (tab_from(d, |a, b| a ^ b), tab_from(d, |a, b| a & b), 0, d - 1, id.clone(), id, "xorand"),
        7 => (tab_from(d, |a, _| a), tab_from(d, |_, b| b), 0, 0, id.clone(), id, "proj"),
        _ => (tab_from(d, |a, b| a.max(b)), tab_from(d, move |a, b| (a + b).min(d - 1)), 0, 0, id.clone(), id, "maxplus"),
    }
}

fn items_variants(rng: &mut Rng, d: usize) -> Vec<E> {
    let full: Vec<E> = (0..d as E).collect();
    match rng.below(8) {
        0..=3 => full,
        4 => { let p = perm(rng, d); p.iter().map(|&x| x as E).collect() }
        5 => { let n = rng.below(MAX_ITEMS as u64 + 1) as usize; (0..n).map(|_| rng.below(d as u64) as E).collect() }
        6 => { let mut v = full; if v.len() < MAX_ITEMS { let x = *rng.pick(&v); v.push(x); } v }
        _ => { let mut v = full; let k = rng.below(v.len() as u64) as usize; v.remove(k); v }
    }
}

fn single_lines(ls: &mut Vec<String>, d: usize, i: &str, f: &str, uns: &[&str], all_consts: bool, rng: &mut Rng) {
    for c in ["associativity", "commutativity", "idempotency", "semigroup"] {
        ls.push(format!("chk {c} {i} {f}"));
    }
    let consts: Vec<usize> = if all_consts { (0..d).collect() } else { vec![0, rng.below(d as u64) as usize] };
    for &e in &consts {
        for c in ["identity", "absorbing_element", "monoid", "commutative_monoid", "no_nonzero_zero_divisors"] {
            ls.push(format!("chk {c} {i} {f} {e}"));
        }
        for b in uns {
            for c in ["inverse", "group", "abelian_group"] {
                ls.push(format!("chk {c} {i} {f} {e} {b}"));
            }
            let z = if all_consts { consts.clone() } else { vec![rng.below(d as u64) as usize] };
            for zero in z {
                ls.push(format!("chk nonzero_inverse {i} {f} {e} {zero} {b}"));
            }
            ls.push(format!("props {i} {f} {e} {b} {}", rng.below(d as u64)));
        }
    }
}

fn double_lines(ls: &mut Vec<String>, i: &str, f: &str, g: &str, zos: &[(usize, usize)], uns: &[&str], invs: &[&str]) {
    for c in ["left_distributes", "right_distributes", "distributive"] {
        ls.push(format!("chk {c} {i} {f} {g}"));
    }
    for &(z, o) in zos {
        ls.push(format!("chk semiring {i} {f} {g} {z} {o}"));
        for b in uns {
            for c in ["ring", "commutative_ring", "integral_domain"] {
                ls.push(format!("chk {c} {i} {f} {g} {z} {o} {b}"));
            }
            for c in invs {
                ls.push(format!("chk field {i} {f} {g} {z} {o} {b} {c}"));
            }
        }
    }
}

/// bounded-exhaustive part over the 2-element carrier
fn exhaustive_dom2(out: &mut Vec<(String, Vec<String>)>, thorough: bool) {
    let d = 2;
    let un_names = ["u0", "u1", "u2", "u3"];
    let un_decl: Vec<String> = (0..4).map(|k| format!("un u{k} {}", show_nums(&nth_un(d, k)))).collect();
    let mut rng = Rng::new(0);
    for k in 0..16 {
        let mut ls = vec![format!("tab f {}", show_tab(&nth_tab(d, k)))];
        ls.extend(un_decl.iter().cloned());
        ls.push("items I 0,1".into());
        single_lines(&mut ls, d, "I", "f", &un_names, true, &mut rng);
        for (n, v) in [("J0", "-"), ("J1", "0"), ("J2", "1"), ("J3", "1,0"), ("J4", "0,0,1"), ("J5", "1,1"), ("J6", "1,0,1,0,1")] {
            ls.push(format!("items {n} {v}"));
            for c in ["associativity", "commutativity", "idempotency"] { ls.push(format!("chk {c} {n} f")); }
            for e in 0..2 {
                for c in ["identity", "absorbing_element", "no_nonzero_zero_divisors", "monoid"] { ls.push(format!("chk {c} {n} f {e}")); }
                ls.push(format!("chk inverse {n} f {e} u2"));
                ls.push(format!("chk nonzero_inverse {n} f {e} {} u1", 1 - e));
            }
        }
        out.push(("dom=2 ex-single".into(), ls));
    }
    for k in 0..16 {
        for j in 0..16 {
            let mut ls = vec![format!("tab f {}", show_tab(&nth_tab(d, k))), format!("tab g {}", show_tab(&nth_tab(d, j)))];
            ls.extend(un_decl.iter().cloned());
            ls.push("items I 0,1".into());
            double_lines(&mut ls, "I", "f", "g", &[(0, 0), (0, 1), (1, 0), (1, 1)], &un_names, &un_names);
            ls.push("items J 1,0,1".into());
            double_lines(&mut ls, "J", "f", "g", &[(0, 1), (1, 0)], &["u1"], &["u3"]);
            out.push(("dom=2 ex-double".into(), ls));
        }
    }
    // linearity: every (f, g, q)
    for k in 0..16 {
        let mut ls = vec![format!("tab f {}", show_tab(&nth_tab(d, k))), "items I 0,1".into(), "items J 1".into(), "items K 1,0,0".into()];
        ls.extend(un_decl.iter().cloned());
        for j in 0..16 {
            ls.push(format!("tab g {}", show_tab(&nth_tab(d, j))));
            for q in un_names {
                ls.push(format!("chk linearity I f g {q}"));
                if (j + k) % 4 == 0 { ls.push(format!("chk linearity J f g {q}")); ls.push(format!("chk linearity K f g {q}")); }
            }
        }
        out.push(("dom=2 ex-linearity".into(), ls));
    }
    // bilinearity: every (f, h, g, q) in the thorough tier, a slice of it otherwise
    for k in 0..16 {
        for j in 0..16 {
            if !thorough && (k * 16 + j) % 16 != 5 { continue; }
            let mut ls = vec![format!("tab f {}", show_tab(&nth_tab(d, k))), format!("tab h {}", show_tab(&nth_tab(d, j))), "items I 0,1".into(), "items J 1,0".into()];
            for g in 0..16 {
                ls.push(format!("tab g {}", show_tab(&nth_tab(d, g))));
                for q in 0..16 {
                    ls.push(format!("tab q {}", show_tab(&nth_tab(d, q))));
                    ls.push("chk bilinearity I J f h g q".into());
                }
            }
            out.push(("dom=2 ex-bilinearity".into(), ls));
        }
    }
}

/// thorough tier: every binary table over the 3-element carrier through the single-operation checkers
fn exhaustive_dom3(out: &mut Vec<(String, Vec<String>)>) {
    let d = 3;
    for chunk in 0..(19683 / 27) {
        let mut ls = vec!["items I 0,1,2".to_string(), "un n 0,2,1".into()];
        for k in chunk * 27..(chunk + 1) * 27 {
            ls.push(format!("tab f {}", show_tab(&nth_tab(d, k))));
            for c in ["associativity", "commutativity", "idempotency"] { ls.push(format!("chk {c} I f")); }
            for e in 0..3 {
                ls.push(format!("chk identity I f {e}"));
                ls.push(format!("chk absorbing_element I f {e}"));
            }
            ls.push("chk inverse I f 0 n".into());
            ls.push("chk no_nonzero_zero_divisors I f 0".into());
        }
        out.push(("dom=3 ex-single".into(), ls));
    }
}

fn f64_pool(rng: &mut Rng) -> f64 {
    const POOL: [f64; 14] = [0.0, 1.0, 0.5, 0.25, 0.1, 0.2, 0.3, 0.7, 0.9, 1.0 / 3.0, 5e-324, f64::MIN_POSITIVE, 0.999_999_999_999_999_9, 1e-200];
    if rng.chance(1, 2) { *rng.pick(&POOL) } else { (rng.next_u64() >> 11) as f64 / (1u64 << 53) as f64 }
}
fn u32_pool(rng: &mut Rng) -> u32 {
    match rng.below(6) {
        0 => *rng.pick(&[0u32, 1, 2, 3, 65535, 65536, 65537, 1 << 31, u32::MAX - 1, u32::MAX]),
        1 => rng.below(16) as u32,
        2 => rng.below(1 << 11) as u32,
        3 => rng.below(1 << 16) as u32,
        4 => u32::MAX - rng.below(8) as u32,
        _ => rng.next_u64() as u32,
    }
}
fn cost_pool(rng: &mut Rng) -> String {
    if rng.chance(1, 5) { "inf".into() } else { u32_pool(rng).to_string() }
}

fn gen_random(rng: &mut Rng, thorough: bool) -> (String, Vec<String>) {
    let d = *rng.pick(&[2usize, 3, 3, 3, 3, 4, 4, 5]);
    let kind = rng.below(16);
    let mut ls = vec![];
    let tag;
    match kind {
        0..=3 => {
            // one operation, all single-operation checkers
            let (f0, g0, _z, _o, neg, inv, nm) = structure(rng, d);
            let mut f = if rng.chance(1, 2) { f0 } else { g0 };
            if rng.chance(1, 4) { f = rand_tab(rng, d); }
            let p = perm(rng, d);
            let (mut f, neg, inv) = (relabel(&f, &p), relabel_un(&neg, &p), relabel_un(&inv, &p));
            if rng.chance(1, 2) { perturb(rng, &mut f, rng.clone().range(1, 2)); }
            ls.push(format!("tab f {}", show_tab(&f)));
            ls.push(format!("un n {}", show_nums(&neg)));
            ls.push(format!("un v {}", show_nums(&inv)));
            ls.push(format!("un r {}", show_nums(&rand_un(rng, d))));
            ls.push(format!("items I {}", show_nums(&items_variants(rng, d))));
            single_lines(&mut ls, d, "I", "f", &["n", "v", "r"], d <= 3 || thorough, rng);
            tag = format!("dom={d} single {nm}");
        }
        4..=8 => {
            // two operations: distributivity and the composite structures
            let (f, g, z, o, neg, inv, nm) = structure(rng, d);
            let p = perm(rng, d);
            let (mut f, mut g, neg, inv) = (relabel(&f, &p), relabel(&g, &p), relabel_un(&neg, &p), relabel_un(&inv, &p));
            let (z, o) = (p[z], p[o]);
            match rng.below(4) { 0 => perturb(rng, &mut f, 1), 1 => perturb(rng, &mut g, 1), _ => {} }
            let mut neg = neg;
            if rng.chance(1, 5) { let k = rng.below(d as u64) as usize; neg[k] = rng.below(d as u64) as E; }
            ls.push(format!("tab f {}", show_tab(&f)));
            ls.push(format!("tab g {}", show_tab(&g)));
            ls.push(format!("un n {}", show_nums(&neg)));
            ls.push(format!("un v {}", show_nums(&inv)));
            ls.push(format!("un r {}", show_nums(&rand_un(rng, d))));
            ls.push(format!("items I {}", show_nums(&items_variants(rng, d))));
            let zos = [(z, o), (o, z), (rng.below(d as u64) as usize, rng.below(d as u64) as usize)];
            double_lines(&mut ls, "I", "f", "g", &zos, &["n", "r"], &["v", "r"]);
            for c in ["commutative_monoid", "monoid"] { ls.push(format!("chk {c} I f {z}")); ls.push(format!("chk {c} I g {o}")); }
            ls.push(format!("chk absorbing_element I g {z}"));
            ls.push(format!("chk group I f {z} n"));
            ls.push(format!("chk abelian_group I f {z} n"));
            ls.push(format!("chk nonzero_inverse I g {o} {z} v"));
            ls.push(format!("chk no_nonzero_zero_divisors I g {z}"));
            tag = format!("dom={d} double {nm}");
        }
        9 | 10 => {
            // linearity
            let (f0, g0, _, _, _, _, nm) = structure(rng, d);
            let (mut f, mut g) = match rng.below(4) { 0 => (f0.clone(), f0), 1 => (g0.clone(), g0), 2 => (f0, g0), _ => (rand_tab(rng, d), rand_tab(rng, d)) };
            match rng.below(4) { 0 => perturb(rng, &mut f, 1), 1 => perturb(rng, &mut g, 1), _ => {} }
            ls.push(format!("tab f {}", show_tab(&f)));
            ls.push(format!("tab g {}", show_tab(&g)));
            ls.push(format!("items I {}", show_nums(&items_variants(rng, d))));
            let k = rng.below(d as u64) as usize;
            for (n, q) in [("q0", un_from(d, |a| a)), ("q1", un_from(d, move |a| a * k)), ("q2", un_from(d, move |_| k)), ("q3", rand_un(rng, d)), ("q4", rand_un(rng, d))] {
                ls.push(format!("un {n} {}", show_nums(&q)));
                ls.push(format!("chk linearity I f g {n}"));
            }
            tag = format!("dom={d} linearity {nm}");
        }
        11 | 12 => {
            // bilinearity
            let (f0, g0, _, _, _, _, nm) = structure(rng, d);
            let mut tabs: Vec<Tab> = match rng.below(3) {
                0 => vec![f0.clone(), f0.clone(), f0.clone(), g0],
                1 => vec![f0.clone(), g0.clone(), f0, g0],
                _ => vec![rand_tab(rng, d), rand_tab(rng, d), rand_tab(rng, d), rand_tab(rng, d)],
            };
            if rng.chance(1, 2) { let k = rng.below(4) as usize; perturb(rng, &mut tabs[k], 1); }
            for (n, t) in ["f", "h", "g", "q"].iter().zip(&tabs) { ls.push(format!("tab {n} {}", show_tab(t))); }
            ls.push(format!("items I {}", show_nums(&items_variants(rng, d))));
            ls.push(format!("items J {}", show_nums(&items_variants(rng, d))));
            ls.push("chk bilinearity I J f h g q".into());
            ls.push("chk bilinearity J I f h g q".into());
            ls.push("chk bilinearity I I f f g q".into());
            tag = format!("dom={d} bilinearity {nm}");
        }
        13 => {
            // cartesian_power itself
            for k in 0..4 {
                ls.push(format!("items L{k} {}", show_nums(&items_variants(rng, d))));
                let n = rng.below(5);
                ls.push(format!("cp {n} L{k}"));
                ls.push(format!("cplen {n} L{k}"));
            }
            ls.push("items E -".into());
            ls.push(format!("cp {} E", rng.below(5)));
            tag = format!("dom={d} cartesian_power");
        }
        14 => {
            // semiring applications
            for _ in 0..6 {
                let app = *rng.pick(&["bt", "mu", "mu", "co", "co", "cs", "cs", "fz"]);
                let v = |rng: &mut Rng| match app {
                    "bt" => rng.below(2).to_string(),
                    "mu" => u32_pool(rng).to_string(),
                    "co" => cost_pool(rng),
                    _ => f64_pool(rng).to_bits().to_string(),
                };
                let (a, b, c) = (v(rng), v(rng), v(rng));
                ls.push(format!("srlaw {app} {a} {b} {c}"));
                ls.push(format!("sr {app} add {a} {b}"));
                ls.push(format!("sr {app} mul {b} {c}"));
            }
            ls.push(format!("sr {} zero", rng.pick(&["bt", "mu", "co", "cs", "fz"])));
            ls.push(format!("sr {} one", rng.pick(&["bt", "mu", "co", "cs", "fz"])));
            ls.push("sr bt new".into());
            let bad = *rng.pick(&[1.5f64, -0.1, f64::NAN, f64::INFINITY, 1.000_000_000_000_000_2, -1.0]);
            ls.push(format!("sr {} new {}", rng.pick(&["cs", "fz"]), bad.to_bits()));
            ls.push(format!("sr cs new {}", f64_pool(rng).to_bits()));
            ls.push(format!("srlaw fz {} {} {}", bad.to_bits(), f64_pool(rng).to_bits(), f64_pool(rng).to_bits()));
            tag = format!("dom={d} semiring_application");
        }
        _ => {
            // malformed stream
            ls.push("tab f 0,1;1".into());
            ls.push(format!("tab g {}", show_tab(&tab_from(d + 1, |a, b| a + b))));
            ls.push(format!("tab f {}", show_tab(&tab_from(d, |a, b| a + b))));
            ls.push("un u 0,x".into());
            ls.push(format!("un u {}", show_nums(&un_from(d, |a| a))));
            ls.push("items I 0,1,0,1,0,1".into());
            ls.push(format!("items I {}", d));
            ls.push("items I 0".into());
            ls.push("chk associativity I nosuch".into());
            ls.push("chk associativity I f extra".into());
            ls.push(format!("chk identity I f {d}"));
            ls.push("chk frobnicate I f".into());
            ls.push("chk identity I f 0".into());
            ls.push("cp 5 I".into());
            ls.push("cp x I".into());
            ls.push("sr mu add 4294967296 1".into());
            ls.push("sr co mul 1".into());
            ls.push("sr co mul 1 1 wrap".into());
            ls.push("srlaw co 1 2 3 panic".into());
            ls.push("sr bt add 2 1".into());
            ls.push("srlaw qq 1 2 3".into());
            ls.push("hello".into());
            tag = format!("dom={d} malformed");
        }
    }
    (tag, ls)
}

fn main() {
    quiet_panics();
    let args = Args::parse();
    let mut rec = Recorder::new(
        "cases = operation tables over carriers {0..d-1} (d=2 exhaustive: all 16 tables / 256 pairs / all (f,g,q) for linearity; d=3..5 structured semirings/rings/fields, relabelled and perturbed, plus uniform random tables) fed to every checker of lattices::algebra through closures, with item lists of length 0..5 (permuted, duplicated, partial, empty); cartesian_power N=0..4; semiring-application operations and law triples; non-trivial = the case has at least one checker answering Ok and one answering Err; distinct = distinct op-line sequences",
    );
    if args.mode != "c09" {
        eprintln!("unknown mode {}", args.mode);
        std::process::exit(2);
    }
    if let Some(p) = &args.replay {
        let lines = hv_common::read_lines(p);
        let mut cur: Vec<String> = vec![];
        let mut head: Option<(u64, String)> = None;
        for l in lines {
            if let Some(rest) = l.strip_prefix("#case ") {
                if let Some((no, tag)) = head.take() {
                    run_case(no, &tag, &cur, &mut rec);
                }
                cur.clear();
                let mut it = rest.splitn(2, ' ');
                let no = it.next().unwrap().parse().unwrap_or(0);
                head = Some((no, it.next().unwrap_or("").to_string()));
            } else if l.starts_with("#case") {
                if let Some((no, tag)) = head.take() { run_case(no, &tag, &cur, &mut rec); }
                cur.clear();
                head = Some((0, String::new()));
            } else {
                if head.is_none() { head = Some((0, String::new())); }
                cur.push(l);
            }
        }
        if let Some((no, tag)) = head.take() {
            run_case(no, &tag, &cur, &mut rec);
        }
    } else {
        let thorough = args.tier == "thorough";
        let mut cases: Vec<(String, Vec<String>)> = vec![];
        exhaustive_dom2(&mut cases, thorough);
        if thorough {
            exhaustive_dom3(&mut cases);
        }
        let root = Rng::new(args.seed);
        for i in 0..args.cases {
            let mut rng = root.fork(i);
            cases.push(gen_random(&mut rng, thorough));
        }
        for (no, (tag, ls)) in cases.iter().enumerate() {
            run_case(no as u64 + 1, tag, ls, &mut rec);
        }
    }
    rec.finish(&args.out);
}
