//! C08: drives the real generalized hash tries (`lattices::ght`) with op-line histories.
//! Protocol: see the header of /verif/lean/HvGht/HvGht/Driver/Main.lean.
use hv_common::{Recorder, Rng, catch};
use lattices::ght::colt::ColtForestNode;
use lattices::ght::lattice::{DeepJoinLatticeBimorphism, GhtCartesianProductBimorphism};
use lattices::ght::{GeneralizedHashTrieNode, GhtGet, GhtInner, GhtLeaf, GhtPrefixIter};
use lattices::{GhtType, IsBot, LatticeBimorphism, Merge};
use std::any::Any;
use std::cmp::Ordering;
use std::collections::{BTreeMap, BTreeSet};
use variadics::variadic_collections::{VariadicCollection, VariadicHashSetStd};
use variadics::{CloneVariadic, VariadicExt, var_expr, var_type};

pub type Row = Vec<u32>;

pub trait Schema: Sized + Clone {
    fn from_row(t: &Row) -> Self;
    fn to_row(&self) -> Row;
}
macro_rules! schema {
    ($name:ident; $($f:ident : $i:expr),+) => {
        pub type $name = var_type!($(schema!(@u $f)),+);
        impl Schema for $name {
            fn from_row(t: &Row) -> Self { var_expr!($(t[$i]),+) }
            fn to_row(&self) -> Row { let var_expr!($($f),+) = self; vec![$(*$f),+] }
        }
    };
    (@u $f:ident) => { u32 };
}
schema!(S2; a:0, b:1);
schema!(S3; a:0, b:1, c:2);
schema!(S4; a:0, b:1, c:2, d:3);
schema!(S5; a:0, b:1, c:2, d:3, e:4);
schema!(S6; a:0, b:1, c:2, d:3, e:4, f:5);

pub fn show_row(t: &Row) -> String {
    t.iter().map(|x| x.to_string()).collect::<Vec<_>>().join(",")
}
pub fn show_list(ts: &[Row]) -> String {
    if ts.is_empty() { "-".into() } else { ts.iter().map(show_row).collect::<Vec<_>>().join(";") }
}
pub fn show_sorted(mut ts: Vec<Row>) -> String {
    ts.sort();
    show_list(&ts)
}
pub fn parse_row(s: &str) -> Option<Row> {
    s.split(',').map(|p| if !p.is_empty() && p.len() <= 9 && p.bytes().all(|b| b.is_ascii_digit()) { p.parse().ok() } else { None }).collect()
}
pub fn parse_rows(s: &str, ar: usize) -> Option<Vec<Row>> {
    if s == "-" { Some(vec![]) } else { s.split(';').map(|r| parse_row(r).filter(|t| t.len() == ar)).collect() }
}

/// structural dump through the public API only
pub trait Dump {
    fn dump(&self) -> String;
}
impl<S, V, St> Dump for GhtLeaf<S, V, St>
where
    S: Schema + CloneVariadic + Eq + std::hash::Hash,
    St: VariadicCollection<Schema = S>,
    Self: GhtGet<Schema = S>,
{
    fn dump(&self) -> String {
        let mut rows: Vec<Row> = self.iter_tuples().map(|r| <S as CloneVariadic>::clone_ref_var(r).to_row()).collect();
        rows.sort();
        format!("{{{}}}", rows.iter().map(show_row).collect::<Vec<_>>().join(";"))
    }
}
impl<N> Dump for GhtInner<u32, N>
where
    N: Dump + GeneralizedHashTrieNode,
    Self: GhtGet<Head = u32, Get = N>,
{
    fn dump(&self) -> String {
        let mut ks: Vec<u32> = GhtGet::iter(self).collect();
        ks.sort();
        format!("[{}]", ks.iter().map(|k| format!("{}:{}", k, GhtGet::get(self, k).unwrap().dump())).collect::<Vec<_>>().join(","))
    }
}

pub fn show_ord(o: Option<Ordering>) -> String {
    match o {
        Some(Ordering::Less) => "lt",
        Some(Ordering::Equal) => "eq",
        Some(Ordering::Greater) => "gt",
        None => "none",
    }
    .into()
}

/// A trie of erased type; every method calls the real implementation.
pub trait DynGht {
    fn arity(&self) -> usize;
    fn insert(&mut self, r: &Row) -> bool;
    fn new_from(&self, rs: &[Row]) -> Box<dyn DynGht>;
    fn clone_box(&self) -> Box<dyn DynGht>;
    fn rows(&self) -> Vec<Row>;
    fn contains(&self, r: &Row) -> bool;
    fn dump(&self) -> String;
    fn merge_node(&mut self, o: &dyn DynGht) -> Option<bool>;
    fn prefix(&self, p: &[u32]) -> Option<Vec<Row>>;
    fn get(&self, h: u32) -> Option<Option<String>>;
    fn keys(&self) -> Vec<u32>;
    fn tuples(&self) -> Vec<Row>;
    fn fcl(&self, r: &Row) -> Option<Vec<Row>>;
    fn height(&self) -> usize;
    fn force_drain(&mut self) -> Option<Box<dyn DynGht>>;
    fn lat(&self) -> Option<&dyn DynLat>;
    fn lat_mut(&mut self) -> Option<&mut dyn DynLat>;
    fn as_any(&self) -> &dyn Any;
}
/// lattice operations (hash-set storage only)
pub trait DynLat {
    fn merge(&mut self, o: &dyn DynGht) -> Option<bool>;
    fn eq_(&self, o: &dyn DynGht) -> Option<bool>;
    fn cmp_(&self, o: &dyn DynGht) -> Option<String>;
    fn isbot(&self) -> bool;
    fn eq0(&self) -> bool;
    fn cmp0(&self) -> String;
    fn deepjoin(&self, o: &dyn DynGht) -> Option<Box<dyn DynGht>>;
    fn cart(&self, o: &dyn DynGht) -> Option<Box<dyn DynGht>>;
}

macro_rules! rows_of {
    ($schema:ty, $it:expr) => {
        $it.map(|r| <$schema as CloneVariadic>::clone_ref_var(r)).map(|o: $schema| o.to_row()).collect::<Vec<Row>>()
    };
}
macro_rules! pfx_arm {
    ($schema:ty, $t:expr, $p:expr, 0) => { rows_of!($schema, $t.prefix_iter(var_expr!())) };
    ($schema:ty, $t:expr, $p:expr, 1) => {{ let pv: &'static _ = Box::leak(Box::new(var_expr!($p[0]))); rows_of!($schema, $t.prefix_iter(pv.as_ref_var())) }};
    ($schema:ty, $t:expr, $p:expr, 2) => {{ let pv: &'static _ = Box::leak(Box::new(var_expr!($p[0], $p[1]))); rows_of!($schema, $t.prefix_iter(pv.as_ref_var())) }};
    ($schema:ty, $t:expr, $p:expr, 3) => {{ let pv: &'static _ = Box::leak(Box::new(var_expr!($p[0], $p[1], $p[2]))); rows_of!($schema, $t.prefix_iter(pv.as_ref_var())) }};
    ($schema:ty, $t:expr, $p:expr, 4) => {{ let pv: &'static _ = Box::leak(Box::new(var_expr!($p[0], $p[1], $p[2], $p[3]))); rows_of!($schema, $t.prefix_iter(pv.as_ref_var())) }};
}
macro_rules! opt_get {
    (inner, $s:expr, $h:expr) => { Some(GhtGet::get($s, &$h).map(|c| c.dump())) };
    (leaf, $s:expr, $h:expr) => { None };
}
macro_rules! opt_force {
    (no, $s:expr) => { None };
    (yes, $s:expr) => { ColtForestNode::force_drain($s).map(|f| Box::new(f) as Box<dyn DynGht>) };
}
macro_rules! opt_lat {
    (no, $s:expr) => { None };
    (yes, $s:expr) => { Some($s) };
}

/// base operations for one concrete trie type
macro_rules! impl_ght {
    ($ty:ty, $schema:ty, $ar:expr, $kind:ident, force=$force:ident, lat=$lat:ident, prefixes=[$($n:tt),*]) => {
        impl DynGht for $ty {
            fn arity(&self) -> usize { $ar }
            fn insert(&mut self, r: &Row) -> bool { GeneralizedHashTrieNode::insert(self, <$schema>::from_row(r)) }
            fn new_from(&self, rs: &[Row]) -> Box<dyn DynGht> { Box::new(<$ty as GeneralizedHashTrieNode>::new_from(rs.iter().map(<$schema>::from_row))) }
            fn clone_box(&self) -> Box<dyn DynGht> { Box::new(self.clone()) }
            fn rows(&self) -> Vec<Row> { rows_of!($schema, self.recursive_iter()) }
            fn contains(&self, r: &Row) -> bool { GeneralizedHashTrieNode::contains(self, <$schema>::from_row(r).as_ref_var()) }
            fn dump(&self) -> String { Dump::dump(self) }
            fn merge_node(&mut self, o: &dyn DynGht) -> Option<bool> {
                o.as_any().downcast_ref::<$ty>().map(|o| GeneralizedHashTrieNode::merge_node(self, o.clone()))
            }
            #[allow(unused_variables)]
            fn prefix(&self, p: &[u32]) -> Option<Vec<Row>> {
                match p.len() {
                    $( $n => Some(pfx_arm!($schema, self, p, $n)), )*
                    _ => None,
                }
            }
            #[allow(unused_variables)]
            fn get(&self, h: u32) -> Option<Option<String>> { opt_get!($kind, self, h) }
            fn keys(&self) -> Vec<u32> { GhtGet::iter(self).map(|h| { let x: u32 = h.into_u32(); x }).collect() }
            fn tuples(&self) -> Vec<Row> { rows_of!($schema, self.iter_tuples()) }
            fn fcl(&self, r: &Row) -> Option<Vec<Row>> {
                let row = <$schema>::from_row(r);
                self.find_containing_leaf(row.as_ref_var()).map(|l| rows_of!($schema, l.recursive_iter()))
            }
            fn height(&self) -> usize { GeneralizedHashTrieNode::height(self) }
            fn force_drain(&mut self) -> Option<Box<dyn DynGht>> { opt_force!($force, self) }
            fn lat(&self) -> Option<&dyn DynLat> { opt_lat!($lat, self) }
            fn lat_mut(&mut self) -> Option<&mut dyn DynLat> { opt_lat!($lat, self) }
            fn as_any(&self) -> &dyn Any { self }
        }
    };
}
/// `Head` of a leaf with empty value type is `()`; everything else here is `u32`
pub trait IntoU32 { fn into_u32(self) -> u32; }
impl IntoU32 for u32 { fn into_u32(self) -> u32 { self } }
impl IntoU32 for () { fn into_u32(self) -> u32 { 0 } }

macro_rules! opt_dj {
    (none, $a:expr, $o:expr, $ty:ty) => { None };
    ($out:ty, $a:expr, $o:expr, $ty:ty) => {
        $o.as_any().downcast_ref::<$ty>().map(|b| {
            type Bim = <($ty, $ty) as DeepJoinLatticeBimorphism<VariadicHashSetStd<$out>>>::DeepJoinLatticeBimorphism;
            let mut bim = <Bim as Default>::default();
            Box::new(bim.call($a, b)) as Box<dyn DynGht>
        })
    };
}
macro_rules! opt_cart {
    (none, $a:expr, $o:expr, $ty:ty) => { None };
    ($out:ty, $a:expr, $o:expr, $ty:ty) => {
        $o.as_any().downcast_ref::<$ty>().map(|b| {
            let mut bim = GhtCartesianProductBimorphism::<$out>::default();
            Box::new(bim.call($a, b)) as Box<dyn DynGht>
        })
    };
}
macro_rules! impl_lat {
    ($ty:ty, dj=$dj:tt, cart=$cart:tt) => {
        impl DynLat for $ty {
            fn merge(&mut self, o: &dyn DynGht) -> Option<bool> { o.as_any().downcast_ref::<$ty>().map(|o| Merge::merge(self, o.clone())) }
            fn eq_(&self, o: &dyn DynGht) -> Option<bool> { o.as_any().downcast_ref::<$ty>().map(|o| self == o) }
            fn cmp_(&self, o: &dyn DynGht) -> Option<String> {
                o.as_any().downcast_ref::<$ty>().map(|o| {
                    let (a, b) = (self.clone(), o.clone());
                    match catch(move || a.partial_cmp(&b)) { Ok(r) => show_ord(r), Err(_) => "panic".into() }
                })
            }
            fn isbot(&self) -> bool { IsBot::is_bot(self) }
            fn eq0(&self) -> bool { *self == <$ty>::default() }
            fn cmp0(&self) -> String {
                let a = self.clone();
                match catch(move || a.partial_cmp(&<$ty>::default())) { Ok(r) => show_ord(r), Err(_) => "panic".into() }
            }
            #[allow(unused_variables)]
            fn deepjoin(&self, o: &dyn DynGht) -> Option<Box<dyn DynGht>> { opt_dj!($dj, self, o, $ty) }
            #[allow(unused_variables)]
            fn cart(&self, o: &dyn DynGht) -> Option<Box<dyn DynGht>> { opt_cart!($cart, self, o, $ty) }
        }
    };
}

// ---- the catalogue of concrete types -------------------------------------------------------
pub type H02 = GhtType!(() => u32, u32: VariadicHashSetStd);
pub type H11 = GhtType!(u32 => u32: VariadicHashSetStd);
pub type H21 = GhtType!(u32, u32 => u32: VariadicHashSetStd);
pub type H12 = GhtType!(u32 => u32, u32: VariadicHashSetStd);
pub type H20 = GhtType!(u32, u32 => (): VariadicHashSetStd);
pub type H31 = GhtType!(u32, u32, u32 => u32: VariadicHashSetStd);
// output-only shapes
pub type H22 = GhtType!(u32, u32 => u32, u32: VariadicHashSetStd);
pub type H14 = GhtType!(u32 => u32, u32, u32, u32: VariadicHashSetStd);
pub type H32 = GhtType!(u32, u32, u32 => u32, u32: VariadicHashSetStd);
pub type H13 = GhtType!(u32 => u32, u32, u32: VariadicHashSetStd);
pub type H15 = GhtType!(u32 => u32, u32, u32, u32, u32: VariadicHashSetStd);

type C02 = GhtType!(() => u32, u32: VariadicCountedHashSetStd);
type C11 = GhtType!(u32 => u32: VariadicCountedHashSetStd);
type C21 = GhtType!(u32, u32 => u32: VariadicCountedHashSetStd);
type C12 = GhtType!(u32 => u32, u32: VariadicCountedHashSetStd);
type C20 = GhtType!(u32, u32 => (): VariadicCountedHashSetStd);
type C31 = GhtType!(u32, u32, u32 => u32: VariadicCountedHashSetStd);

type M02 = GhtType!(() => u32, u32: VariadicColumnMultiset);
type M11 = GhtType!(u32 => u32: VariadicColumnMultiset);
type M21 = GhtType!(u32, u32 => u32: VariadicColumnMultiset);
type M12 = GhtType!(u32 => u32, u32: VariadicColumnMultiset);
type M20 = GhtType!(u32, u32 => (): VariadicColumnMultiset);
type M31 = GhtType!(u32, u32, u32 => u32: VariadicColumnMultiset);

impl_ght!(H02, S2, 2, leaf, force=yes, lat=yes, prefixes=[0, 1, 2]);
impl_ght!(H11, S2, 2, inner, force=no, lat=yes, prefixes=[0, 1, 2]);
impl_ght!(H21, S3, 3, inner, force=no, lat=yes, prefixes=[0, 1, 2, 3]);
impl_ght!(H12, S3, 3, inner, force=no, lat=yes, prefixes=[0, 1, 2, 3]);
impl_ght!(H20, S2, 2, inner, force=no, lat=yes, prefixes=[0, 1, 2]);
impl_ght!(H31, S4, 4, inner, force=no, lat=yes, prefixes=[0, 1, 2, 3, 4]);
impl_ght!(H22, S4, 4, inner, force=no, lat=yes, prefixes=[]);
impl_ght!(H14, S5, 5, inner, force=no, lat=yes, prefixes=[]);
impl_ght!(H32, S5, 5, inner, force=no, lat=yes, prefixes=[]);
impl_ght!(H13, S4, 4, inner, force=no, lat=yes, prefixes=[]);
impl_ght!(H15, S6, 6, inner, force=no, lat=yes, prefixes=[]);

impl_ght!(C02, S2, 2, leaf, force=yes, lat=no, prefixes=[0, 1, 2]);
impl_ght!(C11, S2, 2, inner, force=no, lat=no, prefixes=[0, 1, 2]);
impl_ght!(C21, S3, 3, inner, force=no, lat=no, prefixes=[0, 1, 2, 3]);
impl_ght!(C12, S3, 3, inner, force=no, lat=no, prefixes=[0, 1, 2, 3]);
impl_ght!(C20, S2, 2, inner, force=no, lat=no, prefixes=[0, 1, 2]);
impl_ght!(C31, S4, 4, inner, force=no, lat=no, prefixes=[0, 1, 2, 3, 4]);

impl_ght!(M02, S2, 2, leaf, force=yes, lat=no, prefixes=[0, 1, 2]);
impl_ght!(M11, S2, 2, inner, force=no, lat=no, prefixes=[0, 1, 2]);
impl_ght!(M21, S3, 3, inner, force=no, lat=no, prefixes=[0, 1, 2, 3]);
impl_ght!(M12, S3, 3, inner, force=no, lat=no, prefixes=[0, 1, 2, 3]);
impl_ght!(M20, S2, 2, inner, force=no, lat=no, prefixes=[0, 1, 2]);
impl_ght!(M31, S4, 4, inner, force=no, lat=no, prefixes=[0, 1, 2, 3, 4]);

impl_lat!(H02, dj=none, cart=H13);
impl_lat!(H11, dj=S3, cart=H13);
impl_lat!(H21, dj=S4, cart=H15);
impl_lat!(H12, dj=S5, cart=H15);
impl_lat!(H20, dj=S2, cart=H13);
impl_lat!(H31, dj=S5, cart=none);
impl_lat!(H22, dj=none, cart=none);
impl_lat!(H14, dj=none, cart=none);
impl_lat!(H32, dj=none, cart=none);
impl_lat!(H13, dj=none, cart=none);
impl_lat!(H15, dj=none, cart=none);

pub fn new_trie(k: usize, v: usize, st: &str) -> Option<Box<dyn DynGht>> {
    Some(match (k, v, st) {
        (0, 2, "hs") => Box::new(H02::default()),
        (1, 1, "hs") => Box::new(H11::default()),
        (2, 1, "hs") => Box::new(H21::default()),
        (1, 2, "hs") => Box::new(H12::default()),
        (2, 0, "hs") => Box::new(H20::default()),
        (3, 1, "hs") => Box::new(H31::default()),
        (0, 2, "cs") => Box::new(C02::default()),
        (1, 1, "cs") => Box::new(C11::default()),
        (2, 1, "cs") => Box::new(C21::default()),
        (1, 2, "cs") => Box::new(C12::default()),
        (2, 0, "cs") => Box::new(C20::default()),
        (3, 1, "cs") => Box::new(C31::default()),
        (0, 2, "col") => Box::new(M02::default()),
        (1, 1, "col") => Box::new(M11::default()),
        (2, 1, "col") => Box::new(M21::default()),
        (1, 2, "col") => Box::new(M12::default()),
        (2, 0, "col") => Box::new(M20::default()),
        (3, 1, "col") => Box::new(M31::default()),
        _ => return None,
    })
}
pub const SHAPES: [(usize, usize); 6] = [(0, 2), (1, 1), (2, 1), (1, 2), (2, 0), (3, 1)];

// ---- runner -----------------------------------------------------------------------------------

struct Slot {
    t: Box<dyn DynGht>,
    /// the oracle's own bookkeeping: every row put into the slot (multiset)
    hist: Vec<Row>,
    forced: bool,
}
struct JSlot {
    t: Box<dyn DynGht>,
    expect: Vec<Row>,
    set: bool,
}
pub struct Runner {
    k: usize,
    v: usize,
    hs: bool,
    a: Option<Slot>,
    b: Option<Slot>,
    j: Option<JSlot>,
    pub interesting: bool,
}

fn multiset(ts: &[Row]) -> BTreeMap<Row, usize> {
    let mut m = BTreeMap::new();
    for t in ts {
        *m.entry(t.clone()).or_insert(0) += 1;
    }
    m
}
fn set_of(ts: &[Row]) -> BTreeSet<Row> {
    ts.iter().cloned().collect()
}
fn has_empty_child(dump: &str) -> bool {
    dump.contains(":[]") || dump.contains(":{}")
}

impl Runner {
    pub fn new(tag: &str) -> Runner {
        let get = |key: &str| tag.split(' ').find_map(|w| w.strip_prefix(key).and_then(|r| r.strip_prefix('=')).map(|s| s.to_string()));
        let k = get("k").and_then(|s| s.parse().ok()).unwrap_or(1usize);
        let v = get("v").and_then(|s| s.parse().ok()).unwrap_or(1usize);
        let st = get("st").unwrap_or_else(|| "hs".into());
        let mk = || new_trie(k, v, &st).map(|t| Slot { t, hist: vec![], forced: false });
        Runner { k, v, hs: st == "hs", a: mk(), b: mk(), j: None, interesting: false }
    }
    fn ar(&self) -> usize {
        self.k + self.v
    }

    /// rows of the real trie against the oracle's expectation
    fn check_rows(hs: bool, slot: &Slot, rec: &mut Recorder, what: &str) {
        let got = slot.t.rows();
        let ok = if hs { multiset(&got) == set_of(&slot.hist).into_iter().map(|r| (r, 1)).collect() } else { multiset(&got) == multiset(&slot.hist) };
        rec.check(ok, &format!("ght-rows@{what}"), &format!("expected={} got={}", show_list(&slot.hist), show_sorted(got)));
    }

    fn compare_sig(&self, da: &str, db: &str, fa: bool, fb: bool) -> &'static str {
        if has_empty_child(da) || has_empty_child(db) {
            "ght-compare-vs-rows@empty-child"
        } else if fa || fb {
            "ght-eq-vs-rows@forced-leaf"
        } else {
            "ght-compare-vs-rows"
        }
    }

    pub fn exec(&mut self, line: &str, rec: &mut Recorder) -> String {
        let parts: Vec<&str> = line.split(' ').collect();
        if self.a.is_none() {
            return "bad-op".into();
        }
        let ar = self.ar();
        let hs = self.hs;
        let k = self.k;
        if parts[0] == "J" {
            return self.exec_j(&parts[1..], rec);
        }
        if parts[0] != "A" && parts[0] != "B" {
            return "bad-op".into();
        }
        // binary ops
        if parts.len() == 3 && ["mergenode", "merge", "eq", "cmp"].contains(&parts[1]) && (parts[2] == "A" || parts[2] == "B") {
            let (yt, yhist, yforced) = {
                let y = if parts[2] == "A" { self.a.as_ref().unwrap() } else { self.b.as_ref().unwrap() };
                (y.t.clone_box(), y.hist.clone(), y.forced)
            };
            let sigs = {
                let x = if parts[0] == "A" { self.a.as_ref().unwrap() } else { self.b.as_ref().unwrap() };
                self.compare_sig(&x.t.dump(), &yt.dump(), x.forced, yforced)
            };
            let x = if parts[0] == "A" { self.a.as_mut().unwrap() } else { self.b.as_mut().unwrap() };
            let xs = set_of(&x.hist);
            let ys = set_of(&yhist);
            match parts[1] {
                "mergenode" | "merge" => {
                    let r = if parts[1] == "merge" {
                        match x.t.lat_mut() {
                            Some(l) => l.merge(yt.as_ref()),
                            None => None,
                        }
                    } else {
                        x.t.merge_node(yt.as_ref())
                    };
                    let Some(r) = r else { return "bad-op".into() };
                    let want = if hs { !ys.is_subset(&xs) } else { !yhist.is_empty() };
                    rec.check(r == want, "ght-merge-changed", &format!("{line}: X={} Y={} got={r}", show_list(&x.hist), show_list(&yhist)));
                    // shared key prefix, different rows: the interesting kind of merge
                    if xs.iter().any(|p| ys.iter().any(|q| p[..k.min(1)] == q[..k.min(1)] && p != q)) {
                        self.interesting = true;
                    }
                    let x = if parts[0] == "A" { self.a.as_mut().unwrap() } else { self.b.as_mut().unwrap() };
                    x.hist.extend(yhist);
                    rec.count(&format!("{}:changed={r}", parts[1]));
                    Self::check_rows(hs, x, rec, parts[1]);
                    r.to_string()
                }
                "eq" => {
                    let Some(l) = x.t.lat() else { return "bad-op".into() };
                    let Some(r) = l.eq_(yt.as_ref()) else { return "bad-op".into() };
                    rec.check(r == (xs == ys), sigs, &format!("{line}: X={} Y={} got={r}", x.t.dump(), yt.dump()));
                    rec.count(&format!("eq={r}"));
                    r.to_string()
                }
                _ => {
                    let Some(l) = x.t.lat() else { return "bad-op".into() };
                    let Some(r) = l.cmp_(yt.as_ref()) else { return "bad-op".into() };
                    let want = if xs == ys { "eq" } else if xs.is_subset(&ys) { "lt" } else if ys.is_subset(&xs) { "gt" } else { "none" };
                    if r == "panic" {
                        rec.check(false, "ght-cmp-panic", &format!("{line}: X={} Y={}", x.t.dump(), yt.dump()));
                    } else {
                        rec.check(r == want, sigs, &format!("{line}: X={} Y={} got={r} want={want}", x.t.dump(), yt.dump()));
                    }
                    rec.count(&format!("cmp={r}"));
                    r
                }
            }
        } else {
            let x = if parts[0] == "A" { self.a.as_mut().unwrap() } else { self.b.as_mut().unwrap() };
            let expected: Vec<Row> = if hs { set_of(&x.hist).into_iter().collect() } else { x.hist.clone() };
            match &parts[1..] {
                ["insert", r] => match parse_row(r).filter(|t| t.len() == ar) {
                    Some(r) => {
                        let out = x.t.insert(&r);
                        rec.check(out, "ght-insert-flag", line);
                        rec.count(if x.hist.contains(&r) { "insert:dup" } else { "insert:new" });
                        x.hist.push(r);
                        Self::check_rows(hs, x, rec, "insert");
                        out.to_string()
                    }
                    None => "bad-op".into(),
                },
                ["new", rs] => match parse_rows(rs, ar) {
                    Some(rs) => {
                        x.t = x.t.new_from(&rs);
                        x.hist = rs;
                        x.forced = false;
                        Self::check_rows(hs, x, rec, "new");
                        "ok".into()
                    }
                    None => "bad-op".into(),
                },
                ["contains", r] => match parse_row(r).filter(|t| t.len() == ar) {
                    Some(r) => {
                        let out = x.t.contains(&r);
                        rec.check(out == x.hist.contains(&r), "ght-contains", line);
                        rec.count(&format!("contains={out}"));
                        out.to_string()
                    }
                    None => "bad-op".into(),
                },
                ["rows"] => show_sorted(x.t.rows()),
                ["dump"] => x.t.dump(),
                ["isbot"] => match x.t.lat() {
                    Some(l) => {
                        let out = l.isbot();
                        rec.check(out == x.hist.is_empty(), "ght-isbot", line);
                        out.to_string()
                    }
                    None => "bad-op".into(),
                },
                ["prefix", p] => {
                    let p = if *p == "-" { Some(vec![]) } else { parse_row(p) };
                    match p.filter(|p| p.len() <= ar) {
                        Some(p) => match x.t.prefix(&p) {
                            Some(rows) => {
                                let want: Vec<Row> = expected.iter().filter(|r| r[..p.len()] == p[..]).cloned().collect();
                                rec.check(multiset(&rows) == multiset(&want), "ght-prefix", &format!("{line}: got={}", show_sorted(rows.clone())));
                                rec.count(&format!("prefix:len={}:{}", p.len(), if rows.is_empty() { "empty" } else { "hit" }));
                                show_sorted(rows)
                            }
                            None => "bad-op".into(),
                        },
                        None => "bad-op".into(),
                    }
                }
                ["get", h] => match parse_row(h).filter(|t| t.len() == 1) {
                    Some(h) => match x.t.get(h[0]) {
                        Some(child) => {
                            let want = expected.iter().any(|r| r[0] == h[0]);
                            rec.check(child.is_some() == want, "ght-get", line);
                            child.unwrap_or_else(|| "none".into())
                        }
                        None => "bad-op".into(),
                    },
                    None => "bad-op".into(),
                },
                ["keys"] => {
                    let mut ks = x.t.keys();
                    ks.sort();
                    let want: Vec<u32> = if k == 0 { vec![] } else { expected.iter().map(|r| r[0]).collect::<BTreeSet<_>>().into_iter().collect() };
                    rec.check(ks == want, "ght-keys", line);
                    if ks.is_empty() { "-".into() } else { ks.iter().map(|x| x.to_string()).collect::<Vec<_>>().join(",") }
                }
                ["tuples"] => show_sorted(x.t.tuples()),
                ["fcl", r] => match parse_row(r).filter(|t| t.len() == ar) {
                    Some(r) => {
                        let out = x.t.fcl(&r);
                        let want: Vec<Row> = expected.iter().filter(|q| q[..k] == r[..k]).cloned().collect();
                        let ok = match &out {
                            Some(rows) => x.hist.contains(&r) && multiset(rows) == multiset(&want),
                            None => !x.hist.contains(&r),
                        };
                        rec.check(ok, "ght-fcl", line);
                        out.map(show_sorted).unwrap_or_else(|| "none".into())
                    }
                    None => "bad-op".into(),
                },
                ["height"] => x.t.height().to_string(),
                ["forcedrain"] => match x.t.force_drain() {
                    Some(f) => {
                        let ok = multiset(&f.rows()) == multiset(&expected) && x.t.rows().is_empty();
                        rec.check(ok, "ght-force-rows", line);
                        rec.count("forcedrain");
                        x.hist.clear();
                        x.forced = true;
                        let d = f.dump();
                        self.j = Some(JSlot { t: f, expect: expected, set: hs });
                        d
                    }
                    None => "bad-op".into(),
                },
                _ => "bad-op".into(),
            }
        }
    }

    fn exec_j(&mut self, cmd: &[&str], rec: &mut Recorder) -> String {
        let k = self.k;
        match cmd {
            ["deepjoin"] | ["cart"] => {
                let (a, b) = (self.a.as_ref().unwrap(), self.b.as_ref().unwrap());
                let Some(l) = a.t.lat() else { return "bad-op".into() };
                let dj = cmd[0] == "deepjoin";
                if dj && k == 0 {
                    return "bad-op".into();
                }
                let out = if dj { l.deepjoin(b.t.as_ref()) } else { l.cart(b.t.as_ref()) };
                let Some(out) = out else { return "bad-op".into() };
                let (xs, ys) = (set_of(&a.hist), set_of(&b.hist));
                let mut want: BTreeSet<Row> = BTreeSet::new();
                for p in &xs {
                    for q in &ys {
                        if dj {
                            if p[..k] == q[..k] {
                                let mut r = p.clone();
                                r.extend_from_slice(&q[k..]);
                                want.insert(r);
                            }
                        } else {
                            let mut r = p.clone();
                            r.extend_from_slice(q);
                            want.insert(r);
                        }
                    }
                }
                let got = out.rows();
                let ok = multiset(&got) == want.iter().cloned().map(|r| (r, 1)).collect();
                rec.check(ok, if dj { "ght-deepjoin-rows" } else { "ght-cart-rows" }, &format!("A={} B={} got={}", show_list(&a.hist), show_list(&b.hist), show_sorted(got)));
                let d = out.dump();
                rec.count(&format!("{}:{}", cmd[0], if want.is_empty() { "empty" } else { "nonempty" }));
                if has_empty_child(&d) {
                    rec.count("join:empty-child");
                }
                if dj && xs.iter().any(|p| ys.iter().any(|q| p[..1] == q[..1] && p != q)) {
                    self.interesting = true;
                }
                self.j = Some(JSlot { t: out, expect: want.into_iter().collect(), set: true });
                d
            }
            _ => {
                let Some(j) = self.j.as_ref() else { return "bad-op".into() };
                match cmd {
                    ["rows"] => show_sorted(j.t.rows()),
                    ["dump"] => j.t.dump(),
                    ["contains", r] => match parse_row(r).filter(|t| t.len() == j.t.arity()) {
                        Some(r) => {
                            let out = j.t.contains(&r);
                            rec.check(out == j.expect.contains(&r), "ght-contains", &format!("J contains {}", show_row(&r)));
                            out.to_string()
                        }
                        None => "bad-op".into(),
                    },
                    ["eqnew"] => {
                        // J (possibly carrying empty children / a forced leaf) against tries rebuilt by insert from
                        // its own rows: equal to the full rebuild, strictly above the rebuild without the least row
                        if !j.set {
                            return "bad-op".into();
                        }
                        let Some(l) = j.t.lat() else { return "bad-op".into() };
                        let d = j.t.dump();
                        let sig = if has_empty_child(&d) { "ght-compare-vs-rows@empty-child" } else { "ght-compare-vs-rows" };
                        let mut rs: Vec<Row> = j.expect.clone();
                        rs.sort();
                        rs.dedup();
                        let full = j.t.new_from(&rs);
                        let (Some(e1), Some(c1)) = (l.eq_(full.as_ref()), l.cmp_(full.as_ref())) else { return "bad-op".into() };
                        let Some(fl) = full.lat() else { return "bad-op".into() };
                        let (Some(e1r), Some(c1r)) = (fl.eq_(j.t.as_ref()), fl.cmp_(j.t.as_ref())) else { return "bad-op".into() };
                        rec.check(e1 && c1 == "eq" && e1r && c1r == "eq", sig, &format!("J eqnew: J={d} rebuilt={} got {e1} {c1} / reversed {e1r} {c1r}", full.dump()));
                        let (e1, c1) = (format!("{e1}/{e1r}"), format!("{c1}/{c1r}"));
                        rec.count(&format!("eqnew:{}", if has_empty_child(&d) { "empty-child" } else { "plain" }));
                        if rs.is_empty() {
                            format!("{e1} {c1} -")
                        } else {
                            let less = j.t.new_from(&rs[1..]);
                            let (Some(e2), Some(c2)) = (l.eq_(less.as_ref()), l.cmp_(less.as_ref())) else { return "bad-op".into() };
                            let Some(c3) = less.lat().and_then(|ll| ll.cmp_(j.t.as_ref())) else { return "bad-op".into() };
                            let Some(e3) = less.lat().and_then(|ll| ll.eq_(j.t.as_ref())) else { return "bad-op".into() };
                            rec.check(!e2 && !e3 && c2 == "gt" && c3 == "lt", sig, &format!("J eqnew: J={d} smaller={} got {e2}/{e3} {c2} {c3}", less.dump()));
                            format!("{e1} {c1} {e2}/{e3} {c2} {c3}")
                        }
                    }
                    ["isbot"] | ["eq0"] | ["cmp0"] => {
                        if !j.set {
                            return "bad-op".into();
                        }
                        let Some(l) = j.t.lat() else { return "bad-op".into() };
                        let empty = j.expect.is_empty();
                        let d = j.t.dump();
                        let sig = if has_empty_child(&d) { "ght-compare-vs-rows@empty-child" } else { "ght-compare-vs-rows" };
                        match cmd[0] {
                            "isbot" => {
                                let out = l.isbot();
                                rec.check(out == empty, "ght-isbot", &format!("J={d}"));
                                out.to_string()
                            }
                            "eq0" => {
                                let out = l.eq0();
                                rec.check(out == empty, sig, &format!("J eq0: J={d} got={out}"));
                                rec.count(&format!("eq0={out}"));
                                out.to_string()
                            }
                            _ => {
                                let out = l.cmp0();
                                if out == "panic" {
                                    rec.check(false, "ght-cmp-panic", &format!("J cmp0: J={d}"));
                                } else {
                                    rec.check(out == if empty { "eq" } else { "gt" }, sig, &format!("J cmp0: J={d} got={out}"));
                                }
                                rec.count(&format!("cmp0={out}"));
                                out
                            }
                        }
                    }
                    _ => "bad-op".into(),
                }
            }
        }
    }
}


// ---- COLT forest ----------------------------------------------------------------------------------

use lattices::ColtType;
use lattices::ght::colt::ColtGet;
type Forest3 = ColtType!(u32, u32, u32);

/// `#case n colt=3`: a forest over three u32 columns driven through `ColtGet::get`
pub struct ColtRunner {
    ok: bool,
    forest: Forest3,
    hist: Vec<Row>,
}
fn forest_dumps(f: &Forest3) -> Vec<String> {
    vec![Dump::dump(&f.0), Dump::dump(&f.1.0), Dump::dump(&f.1.1.0), Dump::dump(&f.1.1.1.0)]
}
fn forest_rows(f: &Forest3) -> Vec<Row> {
    let mut v: Vec<Row> = rows_of!(S3, f.0.recursive_iter());
    v.extend(rows_of!(S3, f.1.0.recursive_iter()));
    v.extend(rows_of!(S3, f.1.1.0.recursive_iter()));
    v.extend(rows_of!(S3, f.1.1.1.0.recursive_iter()));
    v
}
impl ColtRunner {
    pub fn new(tag: &str) -> ColtRunner {
        let m = tag.split(' ').find_map(|w| w.strip_prefix("colt=")).unwrap_or("");
        ColtRunner { ok: m == "3", forest: Forest3::default(), hist: vec![] }
    }
    pub fn exec(&mut self, line: &str, rec: &mut Recorder) -> String {
        if !self.ok {
            return "bad-op".into();
        }
        let parts: Vec<&str> = line.split(' ').collect();
        match &parts[..] {
            ["F", "insert", r] => match parse_row(r).filter(|t| t.len() == 3) {
                Some(r) => {
                    let out = self.forest.0.insert(S3::from_row(&r));
                    self.hist.push(r);
                    rec.check(out, "ght-insert-flag", line);
                    rec.check(multiset(&forest_rows(&self.forest)) == multiset(&self.hist), "colt-rows@insert", line);
                    out.to_string()
                }
                None => "bad-op".into(),
            },
            ["F", "get", p] => match parse_row(p).filter(|t| !t.is_empty() && t.len() <= 3) {
                Some(p) => {
                    // the cursor borrows the forest: print it inside the borrow, element by element
                    let (cursor, cursor_rows): (Vec<String>, Vec<Row>) = {
                        let c1 = ColtGet::get(self.forest.as_mut_var(), &p[0]);
                        if p.len() == 1 {
                            let var_expr!(a, b, c) = c1;
                            let mut rows: Vec<Row> = rows_of!(S3, a.recursive_iter());
                            rows.extend(rows_of!(S3, b.recursive_iter()));
                            rows.extend(rows_of!(S3, c.recursive_iter()));
                            (vec![Dump::dump(&*a), Dump::dump(&*b), Dump::dump(&*c)], rows)
                        } else {
                            let c2 = ColtGet::get(c1, &p[1]);
                            if p.len() == 2 {
                                let var_expr!(a, b) = c2;
                                let mut rows: Vec<Row> = rows_of!(S3, a.recursive_iter());
                                rows.extend(rows_of!(S3, b.recursive_iter()));
                                (vec![Dump::dump(&*a), Dump::dump(&*b)], rows)
                            } else {
                                let c3 = ColtGet::get(c2, &p[2]);
                                let var_expr!(a) = c3;
                                (vec![Dump::dump(&*a)], rows_of!(S3, a.recursive_iter()))
                            }
                        }
                    };
                    rec.check(multiset(&forest_rows(&self.forest)) == multiset(&self.hist), "colt-rows@get", line);
                    let want: Vec<Row> = self.hist.iter().filter(|r| r[..p.len()] == p[..]).cloned().collect();
                    rec.check(multiset(&cursor_rows) == multiset(&want), "colt-cursor-rows", &format!("{line}: cursor={}", show_sorted(cursor_rows.clone())));
                    rec.count(&format!("colt-get:len={}:{}", p.len(), if want.is_empty() { "miss" } else { "hit" }));
                    cursor.join("|")
                }
                None => "bad-op".into(),
            },
            ["F", "dump"] => forest_dumps(&self.forest).join("|"),
            ["F", "rows"] => show_sorted(forest_rows(&self.forest)),
            _ => "bad-op".into(),
        }
    }
}

pub fn gen_colt_case(rng: &mut Rng, steps: usize, dom: u64, malformed: bool) -> Vec<String> {
    let mut ls = vec![];
    for _ in 0..steps {
        let l = match rng.below(10) {
            0..=4 => format!("F insert {}", show_row(&gen_row(rng, 3, dom))),
            5..=7 => {
                let n = 1 + rng.below(3) as usize;
                format!("F get {}", show_row(&gen_row(rng, n, dom)))
            }
            8 => "F dump".into(),
            _ => "F rows".into(),
        };
        ls.push(l);
    }
    ls.push("F dump".into());
    ls.push("F rows".into());
    if malformed {
        ls.push("F get 1,2,3,4".into());
        ls.push("F get -".into());
        ls.push("F insert 1,2".into());
        ls.push("A rows".into());
        ls.push("F frob".into());
    }
    ls
}

// ---- generation -------------------------------------------------------------------------------

fn gen_row(rng: &mut Rng, ar: usize, dom: u64) -> Row {
    (0..ar).map(|_| rng.below(dom) as u32).collect()
}

fn suffix(k: usize, v: usize, st: &str, rng: &mut Rng, dom: u64) -> Vec<String> {
    let ar = k + v;
    let mut ls: Vec<String> = vec!["A rows".into(), "A dump".into(), "B dump".into(), "A keys".into(), "A tuples".into()];
    if st == "hs" || rng.chance(1, 4) {
        for l in ["A eq B", "A cmp B", "B cmp A", "A isbot", "J deepjoin", "J rows", "J eq0", "J cmp0", "J eqnew", "J isbot", "J cart", "J rows", "J eq0", "J eqnew"] {
            ls.push(l.into());
        }
        ls.push(format!("J contains {}", show_row(&gen_row(rng, 2 * ar, dom))));
    }
    let pl = 1 + rng.below(ar as u64) as usize;
    let p = gen_row(rng, pl, dom);
    ls.push(format!("A prefix {}", show_row(&p)));
    ls.push("A prefix -".into());
    ls.push(format!("A get {}", rng.below(dom)));
    ls.push(format!("B fcl {}", show_row(&gen_row(rng, ar, dom))));
    ls
}

pub fn gen_case(rng: &mut Rng, k: usize, v: usize, st: &str, steps: usize, dom: u64, malformed: bool) -> Vec<String> {
    let ar = k + v;
    let mut ls = vec![];
    // rows generated so far: queries re-use them half of the time, so that hits are frequent
    let mut seen: Vec<Row> = vec![];
    let pick = |rng: &mut Rng, seen: &Vec<Row>, n: usize| -> Row {
        if !seen.is_empty() && rng.chance(1, 2) {
            let r = &seen[rng.below(seen.len() as u64) as usize];
            r[..n].to_vec()
        } else {
            gen_row(rng, n, dom)
        }
    };
    for _ in 0..steps {
        let x = if rng.chance(1, 2) { "A" } else { "B" };
        let y = if rng.chance(1, 2) { "A" } else { "B" };
        let l = match rng.below(40) {
            0..=13 => {
                let r = gen_row(rng, ar, dom);
                seen.push(r.clone());
                format!("{x} insert {}", show_row(&r))
            }
            14..=15 => {
                let n = rng.below(5) as usize;
                let rs: Vec<Row> = (0..n).map(|_| gen_row(rng, ar, dom)).collect();
                seen.extend(rs.iter().cloned());
                format!("{x} new {}", show_list(&rs))
            }
            16..=18 => format!("{x} contains {}", show_row(&pick(rng, &seen, ar))),
            19..=21 => format!("{x} merge {y}"),
            22..=23 => format!("{x} mergenode {y}"),
            24..=25 => format!("{x} eq {y}"),
            26..=28 => format!("{x} cmp {y}"),
            29 => format!("{x} isbot"),
            30..=31 => {
                let n = rng.below(ar as u64 + 1) as usize;
                if n == 0 { format!("{x} prefix -") } else { format!("{x} prefix {}", show_row(&pick(rng, &seen, n))) }
            }
            32 => format!("{x} get {}", show_row(&pick(rng, &seen, 1))),
            33 => format!("{x} keys"),
            34 => format!("{x} fcl {}", show_row(&pick(rng, &seen, ar))),
            35 => format!("{x} rows"),
            36 => format!("{x} dump"),
            37 => "J deepjoin".into(),
            38 if k == 0 => format!("{x} forcedrain"),
            38 => "J cart".into(),
            _ => ["J rows", "J eq0", "J cmp0", "J isbot", "A height", "J dump", "J eqnew", "J eqnew"][rng.below(8) as usize].to_string(),
        };
        ls.push(l);
    }
    if k == 0 && rng.chance(1, 2) {
        for l in ["A forcedrain", "J rows", "A rows", "A eq B", "A cmp B", "B eq A"] {
            ls.push(l.into());
        }
    }
    ls.extend(suffix(k, v, st, rng, dom));
    if malformed {
        ls.push(format!("A insert {}", show_row(&gen_row(rng, ar + 1, dom))));
        ls.push("A insert x,y".into());
        ls.push("A insert 1,,2".into());
        ls.push("C rows".into());
        ls.push("A frobnicate".into());
        ls.push("A merge C".into());
        ls.push(format!("A prefix {}", show_row(&gen_row(rng, ar + 1, dom))));
        ls.push("J frob".into());
        ls.push("A get".into());
        ls.push("A get x".into());
    }
    ls
}

/// bounded-exhaustive: every sequence of `len` ops from a small alphabet
pub fn exhaustive_cases(k: usize, v: usize, len: usize) -> Vec<Vec<String>> {
    let mk = |slot: &str, key: u32, sub: u32, val: u32| -> String {
        let mut r: Row = vec![key];
        if k >= 2 {
            r.push(sub);
        }
        while r.len() < k + v {
            r.push(val);
        }
        format!("{slot} insert {}", show_row(&r))
    };
    let alphabet: Vec<String> = vec![mk("A", 0, 0, 0), mk("A", 0, 1, 1), mk("A", 1, 0, 0), mk("B", 0, 0, 0), mk("B", 0, 1, 2), "A merge B".into(), "B merge A".into()];
    let n = alphabet.len();
    let total = n.pow(len as u32);
    let mut out = vec![];
    for mut code in 0..total {
        let mut ls = vec![];
        for _ in 0..len {
            ls.push(alphabet[code % n].clone());
            code /= n;
        }
        for l in ["A rows", "A dump", "B dump", "A eq B", "A cmp B", "B cmp A", "A isbot", "J deepjoin", "J rows", "J eq0", "J cmp0", "J eqnew", "J isbot", "A prefix 0", "A get 0", "A keys"] {
            ls.push(l.into());
        }
        out.push(ls);
    }
    out
}

pub fn run_case(no: u64, tag: &str, lines: &[String], rec: &mut Recorder) {
    rec.case(no, tag);
    if tag.split(' ').any(|w| w.starts_with("colt=")) {
        let mut r = ColtRunner::new(tag);
        let mut gets = 0;
        for l in lines {
            let out = r.exec(l, rec);
            if l.starts_with("F get") && out != "bad-op" && out.contains(',') {
                gets += 1;
            }
            rec.line(l, &out);
        }
        if gets >= 2 {
            rec.nontrivial();
        }
        return;
    }
    let mut r = Runner::new(tag);
    for l in lines {
        let out = r.exec(l, rec);
        rec.line(l, &out);
    }
    if r.interesting {
        rec.nontrivial();
    }
}

pub const RULE: &str = "c08: histories of insert/new/merge/merge_node/contains/prefix/get/fcl/eq/cmp/deep-join/cartesian-product/force_drain on two tries of one shape (key/value splits 0+2,1+1,2+1,1+2,2+0,3+1; hash-set, counted, column storage) over column domain {0..dom}, dom 2..4; non-trivial = the history merges or deep-joins two tries that share a first key column but differ in a row; distinct = distinct op-line sequences; colt=3 cases: insert / chained ColtGet::get / dump histories on a ColtType!(u32,u32,u32) forest, non-trivial = at least two gets that reach rows";

pub fn generate(seed: u64, cases: u64, tier: &str, rec: &mut Recorder) {
    let root = Rng::new(seed);
    let mut no = 0u64;
    let ex_len = if tier == "thorough" { 4 } else { 3 };
    for (k, v) in [(1usize, 1usize), (2, 1)] {
        for ls in exhaustive_cases(k, v, ex_len) {
            no += 1;
            run_case(no, &format!("k={k} v={v} st=hs exhaustive"), &ls, rec);
        }
    }
    for i in 0..cases {
        let mut rng = root.fork(i);
        if rng.chance(1, 8) {
            let steps = rng.range(3, if tier == "thorough" { 40 } else { 20 }) as usize;
            let dom = rng.range(2, 3);
            let malformed = rng.chance(1, 10);
            let ls = gen_colt_case(&mut rng, steps, dom, malformed);
            no += 1;
            run_case(no, if rng.chance(1, 40) { "colt=4" } else { "colt=3" }, &ls, rec);
            continue;
        }
        let (k, v) = *rng.pick(&SHAPES);
        let st = *rng.pick(&["hs", "hs", "cs", "col"]);
        let steps = rng.range(3, if tier == "thorough" { 60 } else { 25 }) as usize;
        let dom = rng.range(2, 4);
        let malformed = rng.chance(1, 10);
        let ls = gen_case(&mut rng, k, v, st, steps, dom, malformed);
        no += 1;
        if rng.chance(1, 60) {
            // unknown shape: every line must be bad-op
            run_case(no, &format!("k=4 v=4 st={st}"), &ls, rec);
        } else {
            run_case(no, &format!("k={k} v={v} st={st}"), &ls, rec);
        }
    }
}
