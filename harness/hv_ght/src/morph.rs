//! C07: the shipped lattice bimorphisms checked against the bimorphism laws on the real types.
//! Protocol: see the header of /verif/lean/HvGht/HvGht/Driver/Morph.lean.
use crate::ght::{DynGht, H11, H12, H13, H21, Row, S3, S4, S5, parse_rows, show_list};
use hv_common::{Recorder, Rng};
use lattices::ght::GeneralizedHashTrieNode;
use lattices::ght::lattice::{DeepJoinLatticeBimorphism, GhtCartesianProductBimorphism};
use lattices::map_union::{KeyedBimorphism, MapUnionHashMap};
use lattices::set_union::{CartesianProductBimorphism, SetUnionHashSet};
use lattices::{LatticeBimorphism, Merge, Pair, PairBimorphism};
use std::collections::{BTreeSet, HashMap, HashSet};
use variadics::variadic_collections::VariadicHashSetStd;

type Set = SetUnionHashSet<u32>;
type PSet = SetUnionHashSet<(u32, u32)>;
type Map<V> = MapUnionHashMap<u32, V>;

/// canonical printing; `DEPTH` = how many map levels the type has (chooses the separators)
trait Canon {
    const DEPTH: usize;
    fn canon(&self) -> String;
}
impl Canon for Set {
    const DEPTH: usize = 0;
    fn canon(&self) -> String {
        let mut v: Vec<u32> = self.as_reveal_ref().iter().copied().collect();
        v.sort();
        if v.is_empty() { "-".into() } else { v.iter().map(|x| x.to_string()).collect::<Vec<_>>().join(",") }
    }
}
impl Canon for PSet {
    const DEPTH: usize = 0;
    fn canon(&self) -> String {
        let mut v: Vec<(u32, u32)> = self.as_reveal_ref().iter().copied().collect();
        v.sort();
        if v.is_empty() { "-".into() } else { v.iter().map(|(a, b)| format!("{a}.{b}")).collect::<Vec<_>>().join(",") }
    }
}
impl<A: Canon, B: Canon> Canon for Pair<A, B> {
    const DEPTH: usize = 0;
    fn canon(&self) -> String {
        format!("{}&{}", self.a.canon(), self.b.canon())
    }
}
impl<V: Canon> Canon for Map<V> {
    const DEPTH: usize = V::DEPTH + 1;
    fn canon(&self) -> String {
        let (sep, kv) = if Self::DEPTH == 1 { (";", "=") } else { ("/", ">") };
        let mut es: Vec<(&u32, &V)> = self.as_reveal_ref().iter().collect();
        es.sort_by_key(|e| *e.0);
        if es.is_empty() { "-".into() } else { es.iter().map(|(k, v)| format!("{k}{kv}{}", v.canon())).collect::<Vec<_>>().join(sep) }
    }
}

fn parse_u32(p: &str) -> Option<u32> {
    if !p.is_empty() && p.len() <= 9 && p.bytes().all(|b| b.is_ascii_digit()) { p.parse().ok() } else { None }
}
fn parse_set(s: &str) -> Option<Set> {
    if s == "-" {
        return Some(Set::new(HashSet::new()));
    }
    let v: Vec<u32> = s.split(',').map(parse_u32).collect::<Option<_>>()?;
    let h: HashSet<u32> = v.iter().copied().collect();
    if h.len() != v.len() { None } else { Some(Set::new(h)) }
}
fn parse_map<V>(s: &str, sep: char, kv: char, pv: &dyn Fn(&str) -> Option<V>) -> Option<Map<V>> {
    let mut m = HashMap::new();
    if s == "-" {
        return Some(Map::new(m));
    }
    for e in s.split(sep) {
        let (k, v) = e.split_once(kv)?;
        let k = parse_u32(k)?;
        if m.insert(k, pv(v)?).is_some() {
            return None;
        }
    }
    Some(Map::new(m))
}
fn parse_mapset(s: &str) -> Option<Map<Set>> {
    parse_map(s, ';', '=', &parse_set)
}
fn parse_mapmapset(s: &str) -> Option<Map<Map<Set>>> {
    parse_map(s, '/', '>', &parse_mapset)
}

struct LawOut {
    l: String,
    r: String,
    eq: bool,
    rows_eq: Option<bool>,
}

#[allow(clippy::too_many_arguments)]
fn law<A, B, O>(side: &str, x: &str, y: &str, z: &str, pa: &dyn Fn(&str) -> Option<A>, pb: &dyn Fn(&str) -> Option<B>, f: &mut dyn FnMut(A, B) -> O, show: &dyn Fn(&O) -> String, rows: &dyn Fn(&O) -> Option<BTreeSet<Row>>) -> Option<LawOut>
where
    A: Merge<A> + Clone,
    B: Merge<B> + Clone,
    O: Merge<O> + PartialEq,
{
    let (l, r) = match side {
        "L" => {
            let (a, da, b) = (pa(x)?, pa(y)?, pb(z)?);
            (f(Merge::merge_owned(a.clone(), da.clone()), b.clone()), Merge::merge_owned(f(a, b.clone()), f(da, b)))
        }
        "R" => {
            let (a, b, db) = (pa(x)?, pb(y)?, pb(z)?);
            (f(a.clone(), Merge::merge_owned(b.clone(), db.clone())), Merge::merge_owned(f(a.clone(), b), f(a, db)))
        }
        _ => return None,
    };
    let rows_eq = match (rows(&l), rows(&r)) {
        (Some(p), Some(q)) => Some(p == q),
        _ => None,
    };
    Some(LawOut { l: show(&l), r: show(&r), eq: l == r, rows_eq })
}

fn no_rows<O>(_: &O) -> Option<BTreeSet<Row>> {
    None
}
fn trie_rows<T: DynGht>(t: &T) -> Option<BTreeSet<Row>> {
    Some(t.rows().into_iter().collect())
}
fn parse_trie<T: GeneralizedHashTrieNode + DynGht + Default + 'static>(ar: usize) -> impl Fn(&str) -> Option<T> {
    move |s: &str| {
        let rs = parse_rows(s, ar)?;
        let mut t = T::default();
        for r in &rs {
            DynGht::insert(&mut t, r);
        }
        Some(t)
    }
}

pub const BIMS: [&str; 9] = ["cp", "kcp", "kkcp", "pair", "kpair", "dj11", "dj21", "dj12", "cart11"];

fn has_bottom_value(s: &str) -> bool {
    s.split(';').any(|e| e.ends_with("=-"))
}

pub fn exec(bim: &str, line: &str, rec: &mut Recorder) -> String {
    let parts: Vec<&str> = line.split(' ').collect();
    if parts.len() != 4 {
        return "bad-op".into();
    }
    let (side, x, y, z) = (parts[0], parts[1], parts[2], parts[3]);
    let out = match bim {
        "cp" => law(side, x, y, z, &parse_set, &parse_set, &mut |a: Set, b: Set| CartesianProductBimorphism::<HashSet<(u32, u32)>>::default().call(a, b), &|o: &PSet| o.canon(), &no_rows),
        "kcp" => law(
            side, x, y, z, &parse_mapset, &parse_mapset,
            &mut |a: Map<Set>, b: Map<Set>| KeyedBimorphism::<HashMap<u32, PSet>, _>::new(CartesianProductBimorphism::<HashSet<(u32, u32)>>::default()).call(a, b),
            &|o: &Map<PSet>| o.canon(), &no_rows,
        ),
        "kkcp" => law(
            side, x, y, z, &parse_mapmapset, &parse_mapmapset,
            &mut |a: Map<Map<Set>>, b: Map<Map<Set>>| {
                KeyedBimorphism::<HashMap<u32, Map<PSet>>, _>::new(KeyedBimorphism::<HashMap<u32, PSet>, _>::new(CartesianProductBimorphism::<HashSet<(u32, u32)>>::default())).call(a, b)
            },
            &|o: &Map<Map<PSet>>| o.canon(), &no_rows,
        ),
        "pair" => law(side, x, y, z, &parse_set, &parse_set, &mut |a: Set, b: Set| PairBimorphism.call(a, b), &|o: &Pair<Set, Set>| o.canon(), &no_rows),
        "kpair" => law(
            side, x, y, z, &parse_mapset, &parse_mapset,
            &mut |a: Map<Set>, b: Map<Set>| KeyedBimorphism::<HashMap<u32, Pair<Set, Set>>, _>::new(PairBimorphism).call(a, b),
            &|o: &Map<Pair<Set, Set>>| o.canon(), &no_rows,
        ),
        "dj11" => {
            type Bim = <(H11, H11) as DeepJoinLatticeBimorphism<VariadicHashSetStd<S3>>>::DeepJoinLatticeBimorphism;
            law(side, x, y, z, &parse_trie::<H11>(2), &parse_trie::<H11>(2), &mut |a: H11, b: H11| <Bim as Default>::default().call(&a, &b), &|o| DynGht::dump(o), &|o| trie_rows(o))
        }
        "dj21" => {
            type Bim = <(H21, H21) as DeepJoinLatticeBimorphism<VariadicHashSetStd<S4>>>::DeepJoinLatticeBimorphism;
            law(side, x, y, z, &parse_trie::<H21>(3), &parse_trie::<H21>(3), &mut |a: H21, b: H21| <Bim as Default>::default().call(&a, &b), &|o| DynGht::dump(o), &|o| trie_rows(o))
        }
        "dj12" => {
            type Bim = <(H12, H12) as DeepJoinLatticeBimorphism<VariadicHashSetStd<S5>>>::DeepJoinLatticeBimorphism;
            law(side, x, y, z, &parse_trie::<H12>(3), &parse_trie::<H12>(3), &mut |a: H12, b: H12| <Bim as Default>::default().call(&a, &b), &|o| DynGht::dump(o), &|o| trie_rows(o))
        }
        "cart11" => law(side, x, y, z, &parse_trie::<H11>(2), &parse_trie::<H11>(2), &mut |a: H11, b: H11| GhtCartesianProductBimorphism::<H13>::default().call(&a, &b), &|o: &H13| DynGht::dump(o), &|o| trie_rows(o)),
        _ => None,
    };
    match out {
        None => "bad-op".into(),
        Some(o) => {
            rec.count(&format!("law:{bim}:{side}"));
            rec.count(&format!("law-eq={}", o.eq));
            let detail = format!("{line} -> lhs={} rhs={}", o.l, o.r);
            if bim == "kpair" && !o.eq && (has_bottom_value(x) || has_bottom_value(y) || has_bottom_value(z)) {
                rec.check(false, "bim-law@keyed-pair-bottom-value", &detail);
            } else {
                rec.check(o.eq, &format!("bim-law-{side}@{bim}"), &detail);
            }
            if let Some(re) = o.rows_eq {
                rec.check(re, &format!("bim-law-rows@{bim}"), &detail);
            }
            format!("{} {} {}", o.l, o.r, o.eq)
        }
    }
}

// ---- generation -------------------------------------------------------------------------------

fn show_set(v: &BTreeSet<u32>) -> String {
    if v.is_empty() { "-".into() } else { v.iter().map(|x| x.to_string()).collect::<Vec<_>>().join(",") }
}
fn gen_set(rng: &mut Rng, dom: u64, max: u64) -> String {
    let n = rng.below(max + 1);
    let s: BTreeSet<u32> = (0..n).map(|_| rng.below(dom) as u32).collect();
    show_set(&s)
}
fn gen_mapset(rng: &mut Rng, dom: u64, sep: &str, kv: &str, inner: &mut dyn FnMut(&mut Rng) -> String) -> String {
    let n = rng.below(4);
    let ks: BTreeSet<u32> = (0..n).map(|_| rng.below(dom) as u32).collect();
    if ks.is_empty() { "-".into() } else { ks.iter().map(|k| format!("{k}{kv}{}", inner(rng))).collect::<Vec<_>>().join(sep) }
}
fn gen_rows(rng: &mut Rng, ar: usize, dom: u64) -> String {
    let n = rng.below(5) as usize;
    let rs: Vec<Row> = (0..n).map(|_| (0..ar).map(|_| rng.below(dom) as u32).collect()).collect();
    show_list(&rs)
}
fn gen_value(rng: &mut Rng, bim: &str, dom: u64) -> String {
    match bim {
        "cp" | "pair" => gen_set(rng, dom, 3),
        "kcp" | "kpair" => gen_mapset(rng, dom, ";", "=", &mut |r| gen_set(r, dom, 2)),
        "kkcp" => gen_mapset(rng, dom, "/", ">", &mut |r| gen_mapset(r, dom, ";", "=", &mut |r| gen_set(r, dom, 2))),
        "dj11" | "cart11" => gen_rows(rng, 2, dom),
        _ => gen_rows(rng, 3, dom),
    }
}

/// the small value lists of the bounded-exhaustive part
fn small_values(bim: &str) -> Vec<String> {
    let v: &[&str] = match bim {
        "cp" | "pair" => &["-", "1", "2", "1,2"],
        "kcp" | "kpair" => &["-", "1=-", "1=1", "1=1,2", "2=2", "1=1;2=-", "1=2;2=1"],
        "kkcp" => &["-", "1>-", "1>1=-", "1>1=1", "1>1=1,2;2=2", "2>1=2", "1>1=2/2>2=1"],
        "dj11" | "cart11" => &["-", "1,1", "1,2", "2,1", "1,1;1,2", "1,2;2,2"],
        "dj21" => &["-", "1,1,7", "1,2,8", "1,1,8", "2,1,7", "1,1,7;1,2,8"],
        _ => &["-", "1,1,7", "1,2,8", "1,1,8", "2,1,7", "1,1,7;2,2,8"],
    };
    v.iter().map(|s| s.to_string()).collect()
}

pub fn run_case(no: u64, tag: &str, lines: &[String], rec: &mut Recorder) {
    rec.case(no, tag);
    let bim = tag.split(' ').find_map(|w| w.strip_prefix("bim=")).unwrap_or("?").to_string();
    let mut nontrivial = false;
    for l in lines {
        let out = exec(&bim, l, rec);
        // non-trivial: both sides non-empty and the law compared something non-bottom
        if out != "bad-op" && !out.starts_with("- ") && !out.starts_with("[] ") && !out.starts_with("{} ") {
            nontrivial = true;
        }
        rec.line(l, &out);
    }
    if nontrivial {
        rec.nontrivial();
    }
}

pub const RULE: &str = "c07: law lines f(a+da,b)=f(a,b)+f(da,b) (L) and f(a,b+db)=f(a,b)+f(a,db) (R) for cp,kcp,kkcp,pair,kpair,dj11,dj21,dj12,cart11 on the real types; values over domain {0..4}; non-trivial = a case whose law output is not the bottom element; distinct = distinct op-line sequences";

pub fn generate(seed: u64, cases: u64, tier: &str, rec: &mut Recorder) {
    let root = Rng::new(seed);
    let mut no = 0u64;
    // bounded-exhaustive: all triples over the small value list, both sides
    for bim in BIMS {
        let vals = small_values(bim);
        let cap = if tier == "thorough" { usize::MAX } else { 120 };
        let mut lines = vec![];
        let mut rng = root.fork(1_000_000 + no);
        for x in &vals {
            for y in &vals {
                for z in &vals {
                    lines.push(format!("L {x} {y} {z}"));
                    lines.push(format!("R {x} {y} {z}"));
                }
            }
        }
        // keep a seed-dependent sample in the quick tier
        while lines.len() > cap {
            let i = rng.below(lines.len() as u64) as usize;
            lines.swap_remove(i);
        }
        for chunk in lines.chunks(20) {
            no += 1;
            run_case(no, &format!("bim={bim} exhaustive"), chunk, rec);
        }
    }
    for i in 0..cases {
        let mut rng = root.fork(i);
        let bim = *rng.pick(&BIMS);
        let dom = rng.range(2, 5);
        let n = rng.range(3, 10);
        let mut ls = vec![];
        for _ in 0..n {
            let side = if rng.chance(1, 2) { "L" } else { "R" };
            ls.push(format!("{side} {} {} {}", gen_value(&mut rng, bim, dom), gen_value(&mut rng, bim, dom), gen_value(&mut rng, bim, dom)));
        }
        if rng.chance(1, 10) {
            ls.push("L 1 2".into());
            ls.push("X - - -".into());
            ls.push("L 1,1 - -".into());
            ls.push("L 1=1;1=2 - -".into());
            ls.push("R a b c".into());
            ls.push("L 1,2,3,4,5 - -".into());
            ls.push("L 1=1=2 - -".into());
        }
        no += 1;
        if rng.chance(1, 80) {
            run_case(no, "bim=nosuch", &ls, rec);
        } else {
            run_case(no, &format!("bim={bim}"), &ls, rec);
        }
    }
}
