use lattices::ght::lattice::{DeepJoinLatticeBimorphism};
use lattices::ght::{GeneralizedHashTrieNode};
use lattices::ght::colt::ColtForestNode;
use lattices::{GhtType, IsBot, LatticeBimorphism, Merge, Pair, PairBimorphism};
use lattices::map_union::{MapUnionHashMap, KeyedBimorphism};
use lattices::set_union::{SetUnionHashSet};
use variadics::variadic_collections::VariadicHashSetStd;
use variadics::{var_expr, var_type};
use std::collections::{HashMap, HashSet};

fn main() {
    type A = GhtType!(u32, u64 => &'static str: VariadicHashSetStd);
    let a = A::new_from(vec![var_expr!(1u32, 1u64, "x")]);
    let b = A::new_from(vec![var_expr!(1u32, 2u64, "y")]);
    type Out = var_type!(u32, u64, &'static str, &'static str);
    type Bim = <(A, A) as DeepJoinLatticeBimorphism<VariadicHashSetStd<Out>>>::DeepJoinLatticeBimorphism;
    let mut bim = <Bim as Default>::default();
    let out = bim.call(&a, &b);
    let def = bim.call(&A::default(), &A::default());
    println!("F7 rows={} eq_default={} cmp={:?} isbot={} {}", out.recursive_iter().count(), out == def, out.partial_cmp(&def), out.is_bot(), def.is_bot());
    // partial_cmp panic
    let r = std::panic::catch_unwind(|| {
        let a = A::new_from(vec![var_expr!(1u32, 1u64, "x")]);
        let b = A::new_from(vec![var_expr!(2u32, 1u64, "x")]);
        a.partial_cmp(&b)
    });
    println!("cmp disjoint keys: {:?}", r.map_err(|_| "panic"));
    let r = std::panic::catch_unwind(|| {
        let a = A::new_from(vec![var_expr!(1u32, 1u64, "x"), var_expr!(1u32, 1u64, "y"), var_expr!(2u32, 1u64, "x")]);
        let b = A::new_from(vec![var_expr!(1u32, 1u64, "x"), var_expr!(2u32, 1u64, "x"), var_expr!(2u32, 1u64, "z")]);
        a.partial_cmp(&b)
    });
    println!("cmp greater+less: {:?}", r.map_err(|_| "panic"));
    // forced flag
    type L = GhtType!(() => u32, u32: VariadicHashSetStd);
    let mut l = L::new_from(vec![var_expr!(1u32, 1u32)]);
    let f = l.force_drain().unwrap();
    println!("forced leaf rows={} eq_default={} cmp={:?} forced_rows={}", l.recursive_iter().count(), l == L::default(), l.partial_cmp(&L::default()), f.recursive_iter().count());
    // Keyed(Pair) with bottom
    type S = SetUnionHashSet<u32>;
    type M = MapUnionHashMap<u32, S>;
    let a: M = M::new(HashMap::new());
    let a2: M = M::new(HashMap::from([(1u32, S::new(HashSet::new()))]));
    let bb: M = M::new(HashMap::from([(1u32, S::new(HashSet::from([7u32])))]));
    let mut kb = KeyedBimorphism::<HashMap<u32, Pair<S, S>>, _>::new(PairBimorphism);
    let lhs = kb.call(Merge::merge_owned(a.clone(), a2.clone()), bb.clone());
    let rhs = Merge::merge_owned(kb.call(a.clone(), bb.clone()), kb.call(a2.clone(), bb.clone()));
    println!("keyed pair: a==a2 {} lhs={:?} rhs={:?} eq={}", a == a2, lhs, rhs, lhs == rhs);
}
