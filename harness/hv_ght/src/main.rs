//! hv_ght: harness for C08 (generalized hash tries) and C07 (bimorphism laws).
//! `hv_ght <c08|c07> --seed N --cases N --out DIR --tier quick|thorough [--replay FILE]`
mod ght;
mod morph;
use hv_common::{Args, Recorder};

fn replay(path: &std::path::PathBuf, rec: &mut Recorder, run: &dyn Fn(u64, &str, &[String], &mut Recorder)) {
    let lines = hv_common::read_lines(path);
    let mut cur: Vec<String> = vec![];
    let mut tag = String::new();
    let mut no = 0u64;
    let mut started = false;
    for l in lines {
        if let Some(rest) = l.strip_prefix("#case ") {
            if started {
                run(no, &tag, &cur, rec);
                cur.clear();
            }
            started = true;
            let mut it = rest.splitn(2, ' ');
            no = it.next().unwrap().parse().unwrap_or(0);
            tag = it.next().unwrap_or("").to_string();
        } else if started {
            cur.push(l);
        }
    }
    if started {
        run(no, &tag, &cur, rec);
    }
}

fn main() {
    let args = Args::parse();
    hv_common::quiet_panics();
    match args.mode.as_str() {
        "c08" => {
            let mut rec = Recorder::new(ght::RULE);
            match &args.replay {
                Some(p) => replay(p, &mut rec, &ght::run_case),
                None => ght::generate(args.seed, args.cases, &args.tier, &mut rec),
            }
            rec.finish(&args.out);
        }
        "c07" => {
            let mut rec = Recorder::new(morph::RULE);
            match &args.replay {
                Some(p) => replay(p, &mut rec, &morph::run_case),
                None => morph::generate(args.seed, args.cases, &args.tier, &mut rec),
            }
            rec.finish(&args.out);
        }
        m => {
            eprintln!("unknown mode {m}");
            std::process::exit(2);
        }
    }
}
