//! C12 harness: drives the real `dfir_pipes::push` combinators (and the standard drivers
//! `SendPush` / `SendSink`) with scripted downstreams and a scripted pull, records the global
//! call trace seen by every downstream, and evaluates the push contract + delivered items
//! against an independent iterator-level specification.
//!
//! Op lines (one answer per line):
//!   #case <n> <tags>
//!   cfg <comb> [k=v ...]        -> ok | bad-op
//!   down <port> <rbits> <fbits> -> ok           answer scripts of downstream `port` (`-` = empty, exhausted = true)
//!   pull <tok> ...              -> ok           scripted upstream: `.` = Pending, otherwise one item token
//!   poll                        -> R|P <events> one `SendPush::poll` (or `SendSink::poll` with drv=sink)
//!   rdy | snd <tok> | fin       -> 1|0|ok <events>   manual call on the combinator
//!   end                         -> <aux>        drops the pipeline, prints external state left behind
//! Events: `<port>r<0|1>`, `<port>s<value>`, `<port>f<0|1>`; keyed (hash-ordered) sends print `<port>s*`.
mod gen_cases;

use dfir_pipes::pull::{Pull, PullStep};
use dfir_pipes::push::{self, Push, PushStep};
use dfir_pipes::{Context as PCtx, Yes};
use hv_common::{Args, Recorder};
use lattices::set_union::{SetUnionHashSet, SetUnionSingletonSet};
use std::cell::{Cell, RefCell};
use std::collections::{BTreeMap, BTreeSet, HashMap, VecDeque};
use std::future::Future;
use std::marker::PhantomData;
use std::panic::AssertUnwindSafe;
use std::pin::Pin;
use std::rc::Rc;
use std::task::{Context as TCx, Poll, Waker};

// ------------------------------------------------------------------ values

pub trait Show {
    fn show(&self) -> String;
}
impl Show for i64 {
    fn show(&self) -> String {
        self.to_string()
    }
}
impl Show for (i64, i64) {
    fn show(&self) -> String {
        format!("{}:{}", self.0, self.1)
    }
}
impl Show for Vec<i64> {
    fn show(&self) -> String {
        format!("[{}]", self.iter().map(|x| x.to_string()).collect::<Vec<_>>().join(","))
    }
}
impl Show for SetUnionHashSet<i64> {
    fn show(&self) -> String {
        let s: BTreeSet<i64> = self.as_reveal_ref().iter().copied().collect();
        format!("{{{}}}", s.iter().map(|x| x.to_string()).collect::<Vec<_>>().join(","))
    }
}

fn p_i(s: &str) -> Option<i64> {
    let v: i64 = s.parse().ok()?;
    if v.abs() > 1000 { None } else { Some(v) }
}
fn p_pair(s: &str) -> Option<(i64, i64)> {
    let (a, b) = s.split_once(':')?;
    Some((p_i(a)?, p_i(b)?))
}
fn p_idx(s: &str) -> Option<(usize, i64)> {
    let (a, b) = s.split_once(':')?;
    let i: usize = a.parse().ok()?;
    if i > 50 { None } else { Some((i, p_i(b)?)) }
}
fn p_list(s: &str) -> Option<Vec<i64>> {
    let inner = s.strip_prefix('[')?.strip_suffix(']')?;
    if inner.is_empty() { Some(vec![]) } else { inner.split(',').map(p_i).collect() }
}
/// `d<k>:<v>` or `d<k>:-` : a future pending `k` times, then yielding `Some(v)` / `None`
fn p_fut(s: &str) -> Option<(u32, Option<i64>)> {
    let (a, b) = s.strip_prefix('d')?.split_once(':')?;
    let k: u32 = a.parse().ok()?;
    if k > 20 {
        return None;
    }
    if b == "-" { Some((k, None)) } else { Some((k, Some(p_i(b)?))) }
}
/// `[1,.,2]` : a stream script (`.` = Pending)
fn p_stream(s: &str) -> Option<Vec<Option<i64>>> {
    let inner = s.strip_prefix('[')?.strip_suffix(']')?;
    if inner.is_empty() {
        return Some(vec![]);
    }
    inner.split(',').map(|t| if t == "." { Some(None) } else { p_i(t).map(Some) }).collect()
}
fn p_bits(s: &str) -> Option<Vec<bool>> {
    if s == "-" {
        return Some(vec![]);
    }
    s.chars().map(|c| match c { '0' => Some(false), '1' => Some(true), _ => None }).collect()
}

// the fixed closures (mirrored in the Lean model)
pub fn f_map(x: i64) -> i64 {
    2 * x + 1
}
pub fn p_filter(x: i64) -> bool {
    x.rem_euclid(2) == 0
}
pub fn f_filter_map(x: i64) -> Option<i64> {
    if x.rem_euclid(3) == 0 { None } else { Some(x + 100) }
}
pub fn f_flat(x: i64) -> Vec<i64> {
    (0..x.rem_euclid(3)).map(|j| x * 10 + j).collect()
}
pub fn f_fold(acc: i64, x: i64) -> i64 {
    acc * 2 + x
}

// ------------------------------------------------------------------ trace

#[derive(Clone, Debug, PartialEq)]
pub enum EvK {
    R(bool),
    S(String),
    F(bool),
}
#[derive(Clone, Default)]
pub struct Log(Rc<RefCell<Vec<(usize, EvK)>>>);
impl Log {
    fn push(&self, port: usize, e: EvK) {
        self.0.borrow_mut().push((port, e));
    }
    fn len(&self) -> usize {
        self.0.borrow().len()
    }
}

/// Scripted, recording downstream (re-implementation of the crate's test-only `TestPush`,
/// fused: an exhausted script answers `Done`).  It does not enforce the protocol itself; the
/// oracle checks the recorded trace afterwards.
struct Leaf<T> {
    port: usize,
    rs: VecDeque<bool>,
    fs: VecDeque<bool>,
    log: Log,
    _p: PhantomData<fn(T)>,
}
impl<T> Unpin for Leaf<T> {}
impl<T: Show> Push<T, ()> for Leaf<T> {
    type Ctx<'c> = ();
    type CanPend = Yes;
    fn poll_ready(self: Pin<&mut Self>, _: &mut ()) -> PushStep<Yes> {
        let t = self.get_mut();
        let b = t.rs.pop_front().unwrap_or(true);
        t.log.push(t.port, EvK::R(b));
        if b { PushStep::Done } else { PushStep::Pending(Yes) }
    }
    fn start_send(self: Pin<&mut Self>, item: T, _: ()) {
        let t = self.get_mut();
        t.log.push(t.port, EvK::S(item.show()));
    }
    fn poll_finalize(self: Pin<&mut Self>, _: &mut ()) -> PushStep<Yes> {
        let t = self.get_mut();
        let b = t.fs.pop_front().unwrap_or(true);
        t.log.push(t.port, EvK::F(b));
        if b { PushStep::Done } else { PushStep::Pending(Yes) }
    }
    fn size_hint(self: Pin<&mut Self>, _: (usize, Option<usize>)) {}
}

/// Scripted `futures_sink::Sink` (for the `push::sink` adapter). flush = `f`, close = `f` on port+10.
struct ScriptSink {
    rs: VecDeque<bool>,
    fs: VecDeque<bool>,
    log: Log,
}
impl futures_sink::Sink<i64> for ScriptSink {
    type Error = std::convert::Infallible;
    fn poll_ready(self: Pin<&mut Self>, _: &mut TCx<'_>) -> Poll<Result<(), Self::Error>> {
        let t = self.get_mut();
        let b = t.rs.pop_front().unwrap_or(true);
        t.log.push(0, EvK::R(b));
        if b { Poll::Ready(Ok(())) } else { Poll::Pending }
    }
    fn start_send(self: Pin<&mut Self>, item: i64) -> Result<(), Self::Error> {
        let t = self.get_mut();
        t.log.push(0, EvK::S(item.show()));
        Ok(())
    }
    fn poll_flush(self: Pin<&mut Self>, _: &mut TCx<'_>) -> Poll<Result<(), Self::Error>> {
        let t = self.get_mut();
        let b = t.fs.pop_front().unwrap_or(true);
        t.log.push(0, EvK::F(b));
        if b { Poll::Ready(Ok(())) } else { Poll::Pending }
    }
    fn poll_close(self: Pin<&mut Self>, _: &mut TCx<'_>) -> Poll<Result<(), Self::Error>> {
        self.get_mut().log.push(10, EvK::F(true));
        Poll::Ready(Ok(()))
    }
}

/// Scripted upstream pull.
struct ScriptPull<T> {
    script: VecDeque<(String, Option<T>)>,
    pulled: Rc<RefCell<Vec<String>>>,
    ended_at: Rc<Cell<Option<usize>>>,
    polls_after_end: Rc<Cell<u32>>,
    log: Log,
}
impl<T> Unpin for ScriptPull<T> {}
impl<T> Pull for ScriptPull<T> {
    type Ctx<'c> = ();
    type Item = T;
    type Meta = ();
    type CanPend = Yes;
    type CanEnd = Yes;
    fn pull(self: Pin<&mut Self>, _: &mut ()) -> PullStep<T, (), Yes, Yes> {
        let t = self.get_mut();
        match t.script.pop_front() {
            Some((tok, Some(x))) => {
                t.pulled.borrow_mut().push(tok);
                PullStep::Ready(x, ())
            }
            Some((_, None)) => PullStep::Pending(Yes),
            None => {
                if t.ended_at.get().is_some() {
                    t.polls_after_end.set(t.polls_after_end.get() + 1);
                } else {
                    t.ended_at.set(Some(t.log.len()));
                }
                PullStep::Ended(Yes)
            }
        }
    }
    fn size_hint(&self) -> (usize, Option<usize>) {
        (0, None)
    }
}

/// A future that is pending `delay` times and then yields `out`.
struct ScriptFut<O> {
    delay: u32,
    out: Option<O>,
}
impl<O> Unpin for ScriptFut<O> {}
impl<O> Future for ScriptFut<O> {
    type Output = O;
    fn poll(self: Pin<&mut Self>, _: &mut TCx<'_>) -> Poll<O> {
        let t = self.get_mut();
        if t.delay > 0 {
            t.delay -= 1;
            Poll::Pending
        } else {
            Poll::Ready(t.out.take().expect("ScriptFut polled after completion"))
        }
    }
}

/// Deterministic futures queue for `ResolveFutures` (its `Queue` parameter): every `poll_next`
/// polls each unfinished future once in queue order; ORDERED yields the front once it is done,
/// unordered yields the first finished one.
struct ScriptQueue<const ORDERED: bool> {
    q: Vec<(ScriptFut<i64>, Option<i64>)>,
}
impl<const O: bool> Default for ScriptQueue<O> {
    fn default() -> Self {
        ScriptQueue { q: vec![] }
    }
}
impl<const O: bool> Extend<ScriptFut<i64>> for ScriptQueue<O> {
    fn extend<I: IntoIterator<Item = ScriptFut<i64>>>(&mut self, it: I) {
        for f in it {
            self.q.push((f, None));
        }
    }
}
impl<const O: bool> futures_core::Stream for ScriptQueue<O> {
    type Item = i64;
    fn poll_next(self: Pin<&mut Self>, cx: &mut TCx<'_>) -> Poll<Option<i64>> {
        let t = self.get_mut();
        if t.q.is_empty() {
            return Poll::Ready(None);
        }
        for (f, done) in t.q.iter_mut() {
            if done.is_none() {
                if let Poll::Ready(v) = Pin::new(f).poll(cx) {
                    *done = Some(v);
                }
            }
        }
        let pos = if O { if t.q[0].1.is_some() { Some(0) } else { None } } else { t.q.iter().position(|e| e.1.is_some()) };
        match pos {
            Some(i) => Poll::Ready(Some(t.q.remove(i).1.unwrap())),
            None => Poll::Pending,
        }
    }
}
impl<const O: bool> futures_core::FusedStream for ScriptQueue<O> {
    fn is_terminated(&self) -> bool {
        self.q.is_empty()
    }
}

struct ScriptStream(VecDeque<Option<i64>>);
impl futures_core::Stream for ScriptStream {
    type Item = i64;
    fn poll_next(self: Pin<&mut Self>, _: &mut TCx<'_>) -> Poll<Option<i64>> {
        match self.get_mut().0.pop_front() {
            Some(Some(x)) => Poll::Ready(Some(x)),
            Some(None) => Poll::Pending,
            None => Poll::Ready(None),
        }
    }
}

// ------------------------------------------------------------------ dynamic top

trait Top {
    fn rdy(&mut self) -> bool;
    /// None = token does not parse
    fn snd(&mut self, tok: &str) -> Option<()>;
    fn fin(&mut self) -> bool;
}
struct TopP<P, In> {
    p: Pin<Box<P>>,
    parse: fn(&str) -> Option<In>,
}
impl<P, In> Top for TopP<P, In>
where
    P: Push<In, ()>,
{
    fn rdy(&mut self) -> bool {
        let mut cx = TCx::from_waker(Waker::noop());
        self.p.as_mut().poll_ready(<P::Ctx<'_> as PCtx<'_>>::from_task(&mut cx)).is_done()
    }
    fn snd(&mut self, tok: &str) -> Option<()> {
        let x = (self.parse)(tok)?;
        self.p.as_mut().start_send(x, ());
        Some(())
    }
    fn fin(&mut self) -> bool {
        let mut cx = TCx::from_waker(Waker::noop());
        self.p.as_mut().poll_finalize(<P::Ctx<'_> as PCtx<'_>>::from_task(&mut cx)).is_done()
    }
}
trait Drv {
    fn poll(&mut self) -> bool;
}
struct DrvF<F>(Pin<Box<F>>);
impl<F: Future> Drv for DrvF<F> {
    fn poll(&mut self) -> bool {
        let mut cx = TCx::from_waker(Waker::noop());
        self.0.as_mut().poll(&mut cx).is_ready()
    }
}

enum Mode {
    Manual(Box<dyn Top>),
    Driver(Box<dyn Drv>),
}

struct PullHooks {
    pulled: Rc<RefCell<Vec<String>>>,
    ended_at: Rc<Cell<Option<usize>>>,
    polls_after_end: Rc<Cell<u32>>,
}

/// What the top of the pipeline is driven by.
struct Plan<'a> {
    pull: Option<&'a [String]>,
    sink_driver: bool,
    hooks: &'a PullHooks,
    log: &'a Log,
}

fn finish<P, In>(push: P, parse: fn(&str) -> Option<In>, plan: &Plan) -> Result<Mode, String>
where
    P: Push<In, ()> + 'static,
    In: 'static,
    for<'c> P::Ctx<'c>: PCtx<'c>,
{
    match plan.pull {
        None => Ok(Mode::Manual(Box::new(TopP { p: Box::pin(push), parse }))),
        Some(toks) => {
            let mut script = VecDeque::new();
            for t in toks {
                if t == "." {
                    script.push_back((t.clone(), None));
                } else {
                    script.push_back((t.clone(), Some(parse(t).ok_or("bad item token")?)));
                }
            }
            let pull = ScriptPull {
                script,
                pulled: plan.hooks.pulled.clone(),
                ended_at: plan.hooks.ended_at.clone(),
                polls_after_end: plan.hooks.polls_after_end.clone(),
                log: plan.log.clone(),
            };
            if plan.sink_driver {
                Ok(Mode::Driver(Box::new(DrvF(Box::pin(pull.send_sink(push::sink_compat(push)))))))
            } else {
                Ok(Mode::Driver(Box::new(DrvF(Box::pin(pull.send_push(push))))))
            }
        }
    }
}

#[derive(Clone, Default, Debug)]
pub struct Cfg {
    pub comb: String,
    pub kv: BTreeMap<String, String>,
}
impl Cfg {
    fn get(&self, k: &str) -> Option<&str> {
        self.kv.get(k).map(|s| s.as_str())
    }
    fn flag(&self, k: &str) -> bool {
        self.get(k) == Some("1")
    }
}

fn leak<T>(x: T) -> (&'static mut T, *mut T) {
    let p = Box::into_raw(Box::new(x));
    (unsafe { &mut *p }, p)
}

type Downs = BTreeMap<usize, (Vec<bool>, Vec<bool>)>;
fn leaf<T>(port: usize, downs: &Downs, log: &Log) -> Leaf<T> {
    let (r, f) = downs.get(&port).cloned().unwrap_or_default();
    Leaf { port, rs: r.into(), fs: f.into(), log: log.clone(), _p: PhantomData }
}

/// number of downstream ports of a configuration (None = unknown combinator)
pub fn ports_of(cfg: &Cfg) -> Option<usize> {
    Some(match cfg.comb.as_str() {
        "map" | "filter" | "filter_map" | "inspect" | "flat_map" | "flatten" | "fold" | "fold_ref" | "reduce"
        | "reduce_ref" | "sortacc" | "sort" | "fold_keyed" | "reduce_keyed" | "persist" | "resolve" | "fma" | "fms"
        | "flatten_stream" | "sink" | "mutref" => 1,
        "fanout" | "unzip" | "state" => 2,
        "demux" => cfg.get("n").and_then(|s| s.parse().ok()).filter(|n| (1..=3).contains(n))?,
        "for_each" | "vec_push" => 0,
        "pipe" => match cfg.get("id")? {
            "1" | "2" => 1,
            "3" | "4" | "5" => 2,
            _ => return None,
        },
        _ => return None,
    })
}
/// sends on this port come out in hash-map order
pub fn keyed(cfg: &Cfg, port: usize) -> bool {
    matches!(cfg.comb.as_str(), "fold_keyed" | "reduce_keyed") || (cfg.comb == "pipe" && cfg.get("id") == Some("4") && port == 0)
}
pub fn f_key(x: i64) -> (i64, i64) {
    (x.rem_euclid(2), x)
}

type Aux = Box<dyn FnOnce() -> String>;

fn show_list(v: &[i64]) -> String {
    if v.is_empty() { "-".into() } else { v.iter().map(|x| x.to_string()).collect::<Vec<_>>().join(",") }
}

/// Build the real combinator over scripted leaves.
fn build(cfg: &Cfg, downs: &Downs, plan: &Plan) -> Result<(Mode, Aux), String> {
    let log = plan.log;
    let no_aux: Aux = Box::new(|| "-".to_string());
    let parse_csv = |k: &str| -> Result<Vec<i64>, String> {
        match cfg.get(k) {
            None | Some("-") => Ok(vec![]),
            Some(s) => s.split(',').map(|t| p_i(t).ok_or_else(|| "bad list".to_string())).collect(),
        }
    };
    let parse_map = |k: &str| -> Result<HashMap<i64, i64>, String> {
        match cfg.get(k) {
            None | Some("-") => Ok(HashMap::new()),
            Some(s) => s.split(',').map(|t| p_pair(t).ok_or_else(|| "bad map".to_string())).collect(),
        }
    };
    Ok(match cfg.comb.as_str() {
        "map" => (finish(push::map(f_map, leaf::<i64>(0, downs, log)), p_i, plan)?, no_aux),
        "filter" => (finish(push::filter(|x: &i64| p_filter(*x), leaf::<i64>(0, downs, log)), p_i, plan)?, no_aux),
        "filter_map" => (finish(push::filter_map(f_filter_map, leaf::<i64>(0, downs, log)), p_i, plan)?, no_aux),
        "inspect" => {
            let seen = Rc::new(RefCell::new(Vec::<i64>::new()));
            let s2 = seen.clone();
            let m = finish(push::inspect(move |x: &i64| s2.borrow_mut().push(*x), leaf::<i64>(0, downs, log)), p_i, plan)?;
            (m, Box::new(move || show_list(&seen.borrow())))
        }
        "mutref" => {
            // the `&mut P` forwarding impl under a map
            let (l, lp) = leak(leaf::<i64>(0, downs, log));
            let m = finish(push::map(f_map, l), p_i, plan)?;
            (m, Box::new(move || {
                drop(unsafe { Box::from_raw(lp) });
                "-".into()
            }))
        }
        "flat_map" => (finish(push::flat_map(f_flat, leaf::<i64>(0, downs, log)), p_i, plan)?, no_aux),
        "flatten" => (finish(push::flatten::<Vec<i64>, (), _>(leaf::<i64>(0, downs, log)), p_list, plan)?, no_aux),
        "fanout" => (finish(push::fanout(leaf::<i64>(0, downs, log), leaf::<i64>(1, downs, log)), p_i, plan)?, no_aux),
        "unzip" => (finish(push::unzip(leaf::<i64>(0, downs, log), leaf::<i64>(1, downs, log)), p_pair, plan)?, no_aux),
        "demux" => {
            let n = ports_of(cfg).ok_or("bad n")?;
            let m = match n {
                1 => finish(push::demux_var(variadics::var_expr!(leaf::<i64>(0, downs, log))), p_idx, plan)?,
                2 => finish(push::demux_var(variadics::var_expr!(leaf::<i64>(0, downs, log), leaf::<i64>(1, downs, log))), p_idx, plan)?,
                _ => finish(
                    push::demux_var(variadics::var_expr!(leaf::<i64>(0, downs, log), leaf::<i64>(1, downs, log), leaf::<i64>(2, downs, log))),
                    p_idx,
                    plan,
                )?,
            };
            (m, no_aux)
        }
        "fold" => {
            let init = cfg.get("init").map(|s| p_i(s).ok_or("bad init")).transpose()?.unwrap_or(0);
            (finish(push::fold(init, |a: &mut i64, x: i64| *a = f_fold(*a, x), leaf::<i64>(0, downs, log)), p_i, plan)?, no_aux)
        }
        "fold_ref" => {
            let init = cfg.get("init").map(|s| p_i(s).ok_or("bad init")).transpose()?.unwrap_or(0);
            let (acc, ap) = leak(init);
            let next = push::map(|v: &'static mut i64| *v, leaf::<i64>(0, downs, log));
            let m = finish(push::fold(acc, |a: &mut i64, x: i64| *a = f_fold(*a, x), next), p_i, plan)?;
            (m, Box::new(move || unsafe { *Box::from_raw(ap) }.to_string()))
        }
        "reduce" => {
            let init = cfg.get("init").map(|s| p_i(s).ok_or("bad init")).transpose()?;
            (finish(push::reduce(init, |a: &mut i64, x: i64| *a = f_fold(*a, x), leaf::<i64>(0, downs, log)), p_i, plan)?, no_aux)
        }
        "reduce_ref" => {
            let init = cfg.get("init").map(|s| p_i(s).ok_or("bad init")).transpose()?;
            let (acc, ap) = leak(init);
            let next = push::map(|v: &'static mut i64| *v, leaf::<i64>(0, downs, log));
            let m = finish(push::reduce_ref(acc, |a: &mut i64, x: i64| *a = f_fold(*a, x), next), p_i, plan)?;
            (m, Box::new(move || match unsafe { *Box::from_raw(ap) } {
                Some(v) => v.to_string(),
                None => "none".into(),
            }))
        }
        "sortacc" => (finish(push::accumulate(push::SortState::<i64>::new(), leaf::<i64>(0, downs, log)), p_i, plan)?, no_aux),
        "sort" => (finish(push::sort(leaf::<i64>(0, downs, log)), p_i, plan)?, no_aux),
        "fold_keyed" => {
            let (map, mp) = leak(parse_map("map")?);
            let m = finish(
                push::FoldKeyed::new(map, || 0i64, |a: &mut i64, v: i64| *a = f_fold(*a, v), leaf::<(i64, i64)>(0, downs, log)),
                p_pair,
                plan,
            )?;
            (m, Box::new(move || show_map(&unsafe { *Box::from_raw(mp) })))
        }
        "reduce_keyed" => {
            let (map, mp) = leak(parse_map("map")?);
            let m = finish(
                push::ReduceKeyed::new(map, |a: &mut i64, v: i64| *a = f_fold(*a, v), leaf::<(i64, i64)>(0, downs, log)),
                p_pair,
                plan,
            )?;
            (m, Box::new(move || show_map(&unsafe { *Box::from_raw(mp) })))
        }
        "persist" => {
            let (buf, bp) = leak(parse_csv("buf")?);
            let m = finish(push::persist_state(buf, cfg.flag("replay"), leaf::<i64>(0, downs, log)), p_i, plan)?;
            (m, Box::new(move || show_list(&unsafe { *Box::from_raw(bp) })))
        }
        "resolve" => {
            let pre: Vec<(u32, Option<i64>)> = match cfg.get("q") {
                None | Some("-") => vec![],
                Some(s) => s.split(',').map(|t| p_fut(t).filter(|f| f.1.is_some()).ok_or("bad q")).collect::<Result<_, _>>()?,
            };
            let waker = if cfg.flag("waker") { Some(Waker::noop().clone()) } else { None };
            fn p_f(s: &str) -> Option<ScriptFut<i64>> {
                let (d, v) = p_fut(s)?;
                Some(ScriptFut { delay: d, out: Some(v?) })
            }
            if cfg.get("ord") == Some("0") {
                let mut q = ScriptQueue::<false>::default();
                q.extend(pre.into_iter().map(|(d, v)| ScriptFut { delay: d, out: v }));
                let (q, qp) = leak(q);
                let m = finish(push::resolve_futures_state(q, waker, leaf::<i64>(0, downs, log)), p_f, plan)?;
                (m, Box::new(move || unsafe { Box::from_raw(qp) }.q.len().to_string()))
            } else {
                let mut q = ScriptQueue::<true>::default();
                q.extend(pre.into_iter().map(|(d, v)| ScriptFut { delay: d, out: v }));
                let (q, qp) = leak(q);
                let m = finish(push::resolve_futures_state(q, waker, leaf::<i64>(0, downs, log)), p_f, plan)?;
                (m, Box::new(move || unsafe { Box::from_raw(qp) }.q.len().to_string()))
            }
        }
        "fma" => {
            let m = finish(
                push::filter_map_async(|(d, v): (u32, Option<i64>)| ScriptFut { delay: d, out: Some(v) }, leaf::<i64>(0, downs, log)),
                p_fut,
                plan,
            )?;
            (m, no_aux)
        }
        "fms" => {
            let m = finish(
                push::flat_map_stream::<_, _, ScriptStream, (), _>(|s: Vec<Option<i64>>| ScriptStream(s.into()), leaf::<i64>(0, downs, log)),
                p_stream,
                plan,
            )?;
            (m, no_aux)
        }
        "flatten_stream" => {
            fn p_s(s: &str) -> Option<ScriptStream> {
                Some(ScriptStream(p_stream(s)?.into()))
            }
            (finish(push::flatten_stream::<ScriptStream, (), _>(leaf::<i64>(0, downs, log)), p_s, plan)?, no_aux)
        }
        "sink" => {
            let (r, f) = downs.get(&0).cloned().unwrap_or_default();
            let s = ScriptSink { rs: r.into(), fs: f.into(), log: log.clone() };
            (finish(push::sink::<_, i64>(s), p_i, plan)?, no_aux)
        }
        "for_each" => {
            let seen = Rc::new(RefCell::new(Vec::<i64>::new()));
            let s2 = seen.clone();
            let m = finish(push::for_each(move |x: i64| s2.borrow_mut().push(x)), p_i, plan)?;
            (m, Box::new(move || show_list(&seen.borrow())))
        }
        "vec_push" => {
            let (buf, bp) = leak(parse_csv("buf")?);
            let m = finish(push::vec_push(buf), p_i, plan)?;
            (m, Box::new(move || show_list(&unsafe { *Box::from_raw(bp) })))
        }
        "state" => {
            let mut st = SetUnionHashSet::<i64>::default();
            for x in parse_csv("st")? {
                st.as_reveal_mut().insert(x);
            }
            let (st, sp) = leak(st);
            let m = finish(
                push::state_push(leaf::<i64>(0, downs, log), leaf::<SetUnionHashSet<i64>>(1, downs, log), |x: i64| SetUnionSingletonSet::new_from(x), st),
                p_i,
                plan,
            )?;
            (m, Box::new(move || unsafe { Box::from_raw(sp) }.show()))
        }
        // fixed pipelines: the composition `Comb.comp` / `Comb.comp2` of the model against real nesting
        "pipe" => match cfg.get("id") {
            Some("1") => {
                let (buf, bp) = leak(parse_csv("buf")?);
                let m = finish(
                    push::map(f_map, push::flat_map(f_flat, push::persist_state(buf, true, push::sort(leaf::<i64>(0, downs, log))))),
                    p_i,
                    plan,
                )?;
                (m, Box::new(move || show_list(&unsafe { *Box::from_raw(bp) })))
            }
            Some("2") => {
                let m = finish(
                    push::filter(
                        |x: &i64| p_filter(*x),
                        push::flat_map(f_flat, push::fold(0i64, |a: &mut i64, x: i64| *a = f_fold(*a, x), leaf::<i64>(0, downs, log))),
                    ),
                    p_i,
                    plan,
                )?;
                (m, no_aux)
            }
            Some("3") => {
                let m = finish(
                    push::flat_map(f_flat, push::fanout(leaf::<i64>(0, downs, log), push::filter_map(f_filter_map, leaf::<i64>(1, downs, log)))),
                    p_i,
                    plan,
                )?;
                (m, no_aux)
            }
            Some("4") => {
                let (map, mp) = leak(parse_map("map")?);
                let fk = push::FoldKeyed::new(map, || 0i64, |a: &mut i64, v: i64| *a = f_fold(*a, v), leaf::<(i64, i64)>(0, downs, log));
                let m = finish(push::fanout(push::map(f_key, fk), leaf::<i64>(1, downs, log)), p_i, plan)?;
                (m, Box::new(move || show_map(&unsafe { *Box::from_raw(mp) })))
            }
            Some("5") => {
                let (q, qp) = leak(ScriptQueue::<true>::default());
                let rf = push::resolve_futures_state(q, Some(Waker::noop().clone()), leaf::<i64>(0, downs, log));
                let m = finish(
                    push::fanout(push::map(|x: i64| ScriptFut { delay: x.rem_euclid(4) as u32, out: Some(x) }, rf), leaf::<i64>(1, downs, log)),
                    p_i,
                    plan,
                )?;
                (m, Box::new(move || unsafe { Box::from_raw(qp) }.q.len().to_string()))
            }
            _ => return Err("unknown pipe".into()),
        },
        _ => return Err("unknown combinator".into()),
    })
}

fn show_map(m: &HashMap<i64, i64>) -> String {
    let b: BTreeMap<i64, i64> = m.iter().map(|(k, v)| (*k, *v)).collect();
    if b.is_empty() { "-".into() } else { b.iter().map(|(k, v)| format!("{k}:{v}")).collect::<Vec<_>>().join(",") }
}

// ------------------------------------------------------------------ independent specification

/// Expected delivery per port for the inputs (tokens) that entered the combinator, at completion.
/// `ordered == false`: compare as multisets (hash iteration order / completion order).
pub struct Expect {
    pub per_port: Vec<Vec<String>>,
    pub ordered: bool,
    /// aux string expected at `end` (None = not checked)
    pub aux: Option<String>,
}

pub fn spec(cfg: &Cfg, inputs: &[String]) -> Option<Expect> {
    let ints = || -> Option<Vec<i64>> { inputs.iter().map(|t| p_i(t)).collect() };
    let sh = |v: Vec<i64>| v.iter().map(|x| x.show()).collect::<Vec<_>>();
    let csv = |k: &str| -> Vec<i64> {
        match cfg.get(k) {
            None | Some("-") => vec![],
            Some(s) => s.split(',').filter_map(p_i).collect(),
        }
    };
    let pairs_cfg = |k: &str| -> Vec<(i64, i64)> {
        match cfg.get(k) {
            None | Some("-") => vec![],
            Some(s) => s.split(',').filter_map(p_pair).collect(),
        }
    };
    let init = cfg.get("init").and_then(p_i);
    let mut ordered = true;
    let mut aux = None;
    let per_port = match cfg.comb.as_str() {
        "map" | "mutref" => vec![sh(ints()?.into_iter().map(f_map).collect())],
        "filter" => vec![sh(ints()?.into_iter().filter(|x| p_filter(*x)).collect())],
        "filter_map" => vec![sh(ints()?.into_iter().filter_map(f_filter_map).collect())],
        "inspect" => {
            aux = Some(show_list(&ints()?));
            vec![sh(ints()?)]
        }
        "flat_map" => vec![sh(ints()?.into_iter().flat_map(f_flat).collect())],
        "flatten" => vec![sh(inputs.iter().map(|t| p_list(t)).collect::<Option<Vec<_>>>()?.into_iter().flatten().collect())],
        "fanout" => vec![sh(ints()?), sh(ints()?)],
        "unzip" => {
            let ps: Vec<(i64, i64)> = inputs.iter().map(|t| p_pair(t)).collect::<Option<_>>()?;
            vec![sh(ps.iter().map(|p| p.0).collect()), sh(ps.iter().map(|p| p.1).collect())]
        }
        "demux" => {
            let n = ports_of(cfg)?;
            let ps: Vec<(usize, i64)> = inputs.iter().map(|t| p_idx(t)).collect::<Option<_>>()?;
            (0..n).map(|i| sh(ps.iter().filter(|p| p.0 == i).map(|p| p.1).collect())).collect()
        }
        "fold" | "fold_ref" => {
            let r = ints()?.into_iter().fold(init.unwrap_or(0), f_fold);
            if cfg.comb == "fold_ref" {
                aux = Some(r.to_string());
            }
            vec![sh(vec![r])]
        }
        "reduce" | "reduce_ref" => {
            let mut it = init.into_iter().chain(ints()?);
            let r = it.next().map(|a| it.fold(a, f_fold));
            if cfg.comb == "reduce_ref" {
                aux = Some(r.map(|v| v.to_string()).unwrap_or("none".into()));
            }
            vec![sh(r.into_iter().collect())]
        }
        "sortacc" | "sort" => {
            let mut v = ints()?;
            v.sort();
            vec![sh(v)]
        }
        "fold_keyed" | "reduce_keyed" => {
            ordered = false;
            let mut m: BTreeMap<i64, i64> = pairs_cfg("map").into_iter().collect();
            for t in inputs {
                let (k, v) = p_pair(t)?;
                match m.get_mut(&k) {
                    Some(a) => *a = f_fold(*a, v),
                    None => {
                        m.insert(k, if cfg.comb == "fold_keyed" { f_fold(0, v) } else { v });
                    }
                }
            }
            aux = Some(if m.is_empty() { "-".into() } else { m.iter().map(|(k, v)| format!("{k}:{v}")).collect::<Vec<_>>().join(",") });
            vec![m.iter().map(|(k, v)| (*k, *v).show()).collect()]
        }
        "persist" => {
            let buf = csv("buf");
            let all: Vec<i64> = buf.iter().copied().chain(ints()?).collect();
            aux = Some(show_list(&all));
            vec![sh(if cfg.flag("replay") { all } else { ints()? })]
        }
        "resolve" => {
            // blocking mode: every queued future is resolved and delivered
            ordered = cfg.get("ord") != Some("0");
            let pre: Vec<i64> = match cfg.get("q") {
                None | Some("-") => vec![],
                Some(s) => s.split(',').filter_map(|t| p_fut(t).and_then(|f| f.1)).collect(),
            };
            let ins: Vec<i64> = inputs.iter().map(|t| p_fut(t).and_then(|f| f.1)).collect::<Option<_>>()?;
            vec![sh(pre.into_iter().chain(ins).collect())]
        }
        "fma" => vec![sh(inputs.iter().map(|t| p_fut(t)).collect::<Option<Vec<_>>>()?.into_iter().filter_map(|f| f.1).collect())],
        "fms" | "flatten_stream" => {
            vec![sh(inputs.iter().map(|t| p_stream(t)).collect::<Option<Vec<_>>>()?.into_iter().flatten().flatten().collect())]
        }
        "sink" => vec![sh(ints()?)],
        "for_each" => {
            aux = Some(show_list(&ints()?));
            vec![]
        }
        "vec_push" => {
            aux = Some(show_list(&csv("buf").into_iter().chain(ints()?).collect::<Vec<_>>()));
            vec![]
        }
        "pipe" => match cfg.get("id")? {
            "1" => {
                let flat: Vec<i64> = ints()?.into_iter().map(f_map).flat_map(f_flat).collect();
                let all: Vec<i64> = csv("buf").into_iter().chain(flat).collect();
                aux = Some(show_list(&all));
                let mut v = all;
                v.sort();
                vec![sh(v)]
            }
            "2" => vec![sh(vec![ints()?.into_iter().filter(|x| p_filter(*x)).flat_map(f_flat).fold(0, f_fold)])],
            "3" => {
                let flat: Vec<i64> = ints()?.into_iter().flat_map(f_flat).collect();
                vec![sh(flat.clone()), sh(flat.into_iter().filter_map(f_filter_map).collect())]
            }
            "4" => {
                ordered = false;
                let mut m: BTreeMap<i64, i64> = pairs_cfg("map").into_iter().collect();
                for x in ints()? {
                    let (k, v) = f_key(x);
                    let a = m.entry(k).or_insert(0);
                    *a = f_fold(*a, v);
                }
                aux = Some(if m.is_empty() { "-".into() } else { m.iter().map(|(k, v)| format!("{k}:{v}")).collect::<Vec<_>>().join(",") });
                vec![m.iter().map(|(k, v)| (*k, *v).show()).collect(), sh(ints()?)]
            }
            "5" => vec![sh(ints()?), sh(ints()?)],
            _ => return None,
        },
        "state" => {
            let mut st: BTreeSet<i64> = csv("st").into_iter().collect();
            let mut changed = vec![];
            for x in ints()? {
                if st.insert(x) {
                    changed.push(x);
                }
            }
            let s = format!("{{{}}}", st.iter().map(|x| x.to_string()).collect::<Vec<_>>().join(","));
            aux = Some(s.clone());
            vec![sh(changed), vec![s]]
        }
        _ => return None,
    };
    Some(Expect { per_port, ordered, aux })
}

// ------------------------------------------------------------------ one case

struct Case {
    cfg: Option<Cfg>,
    downs: Downs,
    pull: Option<Vec<String>>,
    built: Option<Mode>,
    aux: Option<Aux>,
    dead: bool,
    ended: bool,
    log: Log,
    cursor: usize,
    hooks: PullHooks,
    // caller-side bookkeeping
    manual_inputs: Vec<String>,
    caller_ready: bool,
    caller_fin_started: bool,
    caller_closed: bool,
    caller_ok: bool,
    calls_after_closed: u32,
    driver_done: bool,
    polls: u32,
    panicked: Option<String>,
}

impl Case {
    fn new() -> Self {
        Case {
            cfg: None,
            downs: Downs::new(),
            pull: None,
            built: None,
            aux: None,
            dead: false,
            ended: false,
            log: Log::default(),
            cursor: 0,
            hooks: PullHooks { pulled: Default::default(), ended_at: Default::default(), polls_after_end: Default::default() },
            manual_inputs: vec![],
            caller_ready: false,
            caller_fin_started: false,
            caller_closed: false,
            caller_ok: true,
            calls_after_closed: 0,
            driver_done: false,
            polls: 0,
            panicked: None,
        }
    }

    fn ensure_built(&mut self, driver: bool) -> Result<(), String> {
        if self.built.is_some() {
            let is_drv = matches!(self.built, Some(Mode::Driver(_)));
            return if is_drv == driver { Ok(()) } else { Err("mode mix".into()) };
        }
        let cfg = self.cfg.clone().ok_or("no cfg")?;
        if driver && self.pull.is_none() {
            return Err("no pull".into());
        }
        let plan = Plan {
            pull: if driver { self.pull.as_deref() } else { None },
            sink_driver: cfg.get("drv") == Some("sink"),
            hooks: &self.hooks,
            log: &self.log,
        };
        let (m, aux) = build(&cfg, &self.downs, &plan)?;
        self.built = Some(m);
        self.aux = Some(aux);
        Ok(())
    }

    fn new_events(&mut self) -> String {
        let cfg = self.cfg.clone().unwrap_or_default();
        let l = self.log.0.borrow();
        let evs: Vec<String> = l[self.cursor..]
            .iter()
            .map(|(p, e)| match e {
                EvK::R(b) => format!("{p}r{}", *b as u8),
                EvK::S(_) if keyed(&cfg, *p) => format!("{p}s*"),
                EvK::S(v) => format!("{p}s{v}"),
                EvK::F(b) => format!("{p}f{}", *b as u8),
            })
            .collect();
        drop(l);
        self.cursor = self.log.len();
        if evs.is_empty() { "-".into() } else { evs.join(" ") }
    }

    fn exec(&mut self, line: &str, rec: &mut Recorder) -> String {
        let parts: Vec<&str> = line.split(' ').collect();
        if self.ended {
            return "bad-op".into();
        }
        match parts.as_slice() {
            ["cfg", name, rest @ ..] if self.cfg.is_none() => {
                let mut cfg = Cfg { comb: name.to_string(), kv: BTreeMap::new() };
                for kv in rest {
                    match kv.split_once('=') {
                        Some((k, v)) if !k.is_empty() => {
                            cfg.kv.insert(k.into(), v.into());
                        }
                        _ => return "bad-op".into(),
                    }
                }
                if ports_of(&cfg).is_none() {
                    return "bad-op".into();
                }
                self.cfg = Some(cfg);
                "ok".into()
            }
            ["down", p, r, f] if self.built.is_none() => match (p.parse::<usize>(), p_bits(r), p_bits(f)) {
                (Ok(p), Some(r), Some(f)) if p < 3 => {
                    self.downs.insert(p, (r, f));
                    "ok".into()
                }
                _ => "bad-op".into(),
            },
            ["pull", toks @ ..] if self.built.is_none() && self.pull.is_none() => {
                self.pull = Some(toks.iter().filter(|t| !t.is_empty()).map(|t| t.to_string()).collect());
                "ok".into()
            }
            ["poll"] => {
                if self.dead {
                    return "dead".into();
                }
                if self.driver_done {
                    return "done".into();
                }
                if self.ensure_built(true).is_err() {
                    return "bad-op".into();
                }
                let Some(Mode::Driver(d)) = self.built.as_mut() else { return "bad-op".into() };
                self.polls += 1;
                match hv_common::catch(AssertUnwindSafe(|| d.poll())) {
                    Ok(r) => {
                        self.driver_done = r;
                        format!("{} {}", if r { "R" } else { "P" }, self.new_events())
                    }
                    Err(msg) => {
                        self.dead = true;
                        self.panicked = Some(msg);
                        format!("panic {}", self.new_events())
                    }
                }
            }
            ["rdy"] | ["fin"] | ["snd", _] => {
                if self.dead {
                    return "dead".into();
                }
                if self.ensure_built(false).is_err() {
                    return "bad-op".into();
                }
                let Some(Mode::Manual(t)) = self.built.as_mut() else { return "bad-op".into() };
                if self.caller_closed {
                    self.calls_after_closed += 1;
                }
                let r = match parts[0] {
                    "rdy" => hv_common::catch(AssertUnwindSafe(|| Some(t.rdy()))),
                    "fin" => hv_common::catch(AssertUnwindSafe(|| Some(t.fin()))),
                    _ => {
                        let tok = parts[1];
                        hv_common::catch(AssertUnwindSafe(|| t.snd(tok).map(|_| true)))
                    }
                };
                match r {
                    Ok(None) => "bad-op".into(),
                    Ok(Some(b)) => {
                        match parts[0] {
                            "rdy" => {
                                self.caller_ready = b;
                                format!("{} {}", b as u8, self.new_events())
                            }
                            "fin" => {
                                self.caller_fin_started = true;
                                if b {
                                    self.caller_closed = true;
                                }
                                format!("{} {}", b as u8, self.new_events())
                            }
                            _ => {
                                if !self.caller_ready || self.caller_fin_started {
                                    self.caller_ok = false;
                                }
                                self.caller_ready = false;
                                self.manual_inputs.push(parts[1].to_string());
                                format!("ok {}", self.new_events())
                            }
                        }
                    }
                    Err(msg) => {
                        self.dead = true;
                        if parts[0] == "snd" && (!self.caller_ready || self.caller_fin_started) {
                            self.caller_ok = false;
                        }
                        self.panicked = Some(msg);
                        format!("panic {}", self.new_events())
                    }
                }
            }
            ["end"] => {
                self.ended = true;
                self.built = None; // drop the pipeline before looking at the external state
                let aux = match self.aux.take() {
                    Some(a) => a(),
                    None => "-".into(),
                };
                self.oracle(&aux, rec);
                aux
            }
            _ => "bad-op".into(),
        }
    }

    /// The property itself on the real code: contract conformance of every downstream trace,
    /// delivered items = iterator-level specification.
    fn oracle(&mut self, aux: &str, rec: &mut Recorder) {
        let Some(cfg) = self.cfg.clone() else { return };
        let comb = cfg.comb.clone();
        let nports = ports_of(&cfg).unwrap_or(0);
        let driver = self.pull.is_some() && self.polls > 0;
        if !driver && !self.caller_ok {
            rec.count("oracle-skipped:caller-nonconforming");
            return;
        }
        let log = self.log.0.borrow().clone();
        let detail = |log: &Vec<(usize, EvK)>| {
            log.iter()
                .map(|(p, e)| match e {
                    EvK::R(b) => format!("{p}r{}", *b as u8),
                    EvK::S(v) => format!("{p}s{v}"),
                    EvK::F(b) => format!("{p}f{}", *b as u8),
                })
                .collect::<Vec<_>>()
                .join(" ")
        };
        let d = format!("cfg={:?} downs={:?} pull={:?} trace={}", cfg, self.downs, self.pull, detail(&log));
        if let Some(msg) = &self.panicked {
            // demux out-of-range index is the documented panic; everything else is a failure
            let documented = comb == "demux" && msg.contains("PushVariadic index out of bounds");
            rec.check(documented, &format!("panic@{comb}"), &format!("{msg} {d}"));
            if documented {
                rec.count("panic:demux-oob");
            }
            return;
        }
        // the non-blocking ResolveFutures keeps unresolved futures (in its external queue) for a later
        // tick: at completion it has delivered only a part of the expected outputs. The protocol
        // clauses (readied sends, no send once finalize was called) are checked for it like for
        // every other combinator.
        let nonblocking = (comb == "resolve" && cfg.flag("waker")) || (comb == "pipe" && cfg.get("id") == Some("5"));
        // 1. protocol per port
        let mut delivered: Vec<Vec<String>> = vec![vec![]; nports.max(1)];
        let mut closed = vec![false; nports.max(1)];
        for port in 0..nports {
            let (mut ready, mut started, mut done) = (false, false, false);
            let (mut unreadied, mut after_fin) = (0, 0);
            for (p, e) in log.iter() {
                if *p != port {
                    continue;
                }
                match e {
                    EvK::R(b) => ready = *b,
                    EvK::S(v) => {
                        if !ready {
                            unreadied += 1;
                        }
                        if started {
                            after_fin += 1;
                        }
                        ready = false;
                        delivered[port].push(v.clone());
                    }
                    EvK::F(b) => {
                        started = true;
                        if *b {
                            done = true;
                        }
                    }
                }
            }
            closed[port] = done;
            rec.check(unreadied == 0, &format!("unreadied-send@{comb}"), &format!("port={port} n={unreadied} {d}"));
            rec.check(after_fin == 0, &format!("send-after-finalize@{comb}"), &format!("port={port} n={after_fin} {d}"));
        }
        rec.check(!log.iter().any(|(p, _)| *p >= nports.max(1)), &format!("stray-port@{comb}"), &d);
        // 2. driver-specific: finalize only after the pull ended, pull not polled after Ended
        if driver {
            let first_fin = log.iter().position(|(_, e)| matches!(e, EvK::F(_)));
            let ok = match (first_fin, self.hooks.ended_at.get()) {
                (Some(i), Some(e)) => i >= e,
                (Some(_), None) => false,
                _ => true,
            };
            rec.check(ok, &format!("finalize-before-pull-ended@{comb}"), &d);
            rec.check(self.hooks.polls_after_end.get() == 0, &format!("pull-polled-after-ended@{comb}"), &d);
        }
        // 3. delivered items
        let inputs: Vec<String> = if driver { self.hooks.pulled.borrow().clone() } else { self.manual_inputs.clone() };
        let complete = if driver { self.driver_done } else { self.caller_closed };
        let Some(exp) = spec(&cfg, &inputs) else {
            rec.check(false, &format!("spec-missing@{comb}"), &d);
            return;
        };
        let blocking = !nonblocking;
        for port in 0..nports {
            let got = &delivered[port];
            let want = &exp.per_port[port];
            if complete && (blocking || port != 0) {
                let ok = if exp.ordered || (comb == "pipe" && port != 0) {
                    got == want
                } else {
                    let (mut a, mut b) = (got.clone(), want.clone());
                    a.sort();
                    b.sort();
                    a == b
                };
                rec.check(ok, &format!("delivered@{comb}"), &format!("port={port} got={got:?} want={want:?} {d}"));
                rec.check(closed[port], &format!("not-finalized@{comb}"), &format!("port={port} {d}"));
            } else {
                // partial run (or non-blocking resolve): nothing but (a prefix / sub-multiset of) the specified items
                let ok = if exp.ordered && comb != "state" && !(nonblocking && port == 0 && comb == "pipe") {
                    got.len() <= want.len() && got[..] == want[..got.len()]
                } else {
                    let mut w = want.clone();
                    got.iter().all(|g| w.iter().position(|x| x == g).map(|i| w.remove(i)).is_some())
                };
                // accumulators may show an intermediate value only at completion; before it they deliver nothing or the final items
                let exempt = matches!(comb.as_str(), "fold" | "fold_ref" | "reduce" | "reduce_ref" | "fold_keyed" | "reduce_keyed" | "sortacc" | "sort" | "state")
                    && !complete
                    && got.is_empty();
                rec.check(ok || exempt, &format!("delivered-partial@{comb}"), &format!("port={port} got={got:?} want={want:?} {d}"));
            }
        }
        if complete {
            rec.count(&format!("complete:{comb}"));
            if let Some(a) = &exp.aux {
                if blocking {
                    rec.check(a == aux, &format!("external-state@{comb}"), &format!("got={aux} want={a} {d}"));
                }
            }
            if nonblocking {
                // non-blocking: delivered + still queued = everything
                let total = exp.per_port[0].len();
                let left: usize = aux.parse().unwrap_or(usize::MAX);
                rec.check(delivered[0].len() + left == total, "resolve-nonblocking-conservation", &d);
            }
        } else {
            rec.count(&format!("incomplete:{comb}"));
        }
        if driver {
            rec.check(self.driver_done || self.polls < 60, &format!("no-completion@{comb}"), &d);
        }
        // distribution
        let pend_r = log.iter().filter(|(_, e)| matches!(e, EvK::R(false))).count();
        let pend_f = log.iter().filter(|(_, e)| matches!(e, EvK::F(false))).count();
        rec.count(&format!("ready-pendings:{}", pend_r.min(4)));
        rec.count(&format!("finalize-pendings:{}", pend_f.min(4)));
        rec.count(&format!("mode:{}", if driver { "driver" } else { "manual" }));
        // branch-level distribution per combinator, derived from the recorded trace:
        //   drain-pend   = a downstream Pending right after a send on that port (Pending in the middle of a
        //                  drain/replay/flush loop: FlatMap.buffer, Persist.replay_idx, Accumulate.phase, flush_items)
        //   resume-send  = a send on a port after an earlier ready? Pending on it (the buffered item survived)
        //   fin-pend     = finalize? Pending on a port, polled again later
        //   repoll-done  = a port polled again after its finalize? Done (what Fanout/Unzip/DemuxVar/StatePush do)
        //   split-ready / split-fin = two ports answered differently within one ready_both! evaluation
        {
            let mut pats: BTreeSet<&'static str> = BTreeSet::new();
            for port in 0..nports {
                let tr: Vec<&EvK> = log.iter().filter(|(p, _)| *p == port).map(|(_, e)| e).collect();
                let mut seen_pend = false;
                let mut seen_done = false;
                for (i, e) in tr.iter().enumerate() {
                    if seen_done {
                        pats.insert("repoll-done");
                    }
                    match e {
                        EvK::R(false) => {
                            if i > 0 && matches!(tr[i - 1], EvK::S(_)) {
                                pats.insert("drain-pend");
                            }
                            seen_pend = true;
                        }
                        EvK::S(_) if seen_pend => {
                            pats.insert("resume-send");
                        }
                        EvK::F(false) if i + 1 < tr.len() => {
                            pats.insert("fin-pend");
                        }
                        EvK::F(true) => seen_done = true,
                        _ => {}
                    }
                }
            }
            for w in log.windows(2) {
                match (&w[0], &w[1]) {
                    ((p, EvK::R(a)), (q, EvK::R(b))) if p != q && a != b => {
                        pats.insert("split-ready");
                    }
                    ((p, EvK::F(a)), (q, EvK::F(b))) if p != q && a != b => {
                        pats.insert("split-fin");
                    }
                    _ => {}
                }
            }
            let label = if comb == "pipe" { format!("pipe{}", cfg.get("id").unwrap_or("?")) } else if comb == "resolve" { format!("resolve-w{}", cfg.flag("waker") as u8) } else { comb.clone() };
            for p in pats {
                rec.count(&format!("br:{label}:{p}"));
            }
        }
        if self.calls_after_closed > 0 {
            rec.count("manual:calls-after-finalize-done");
        }
        if pend_r + pend_f > 0 && !inputs.is_empty() {
            rec.nontrivial();
        }
    }
}

pub fn run_case(no: u64, tag: &str, lines: &[String], rec: &mut Recorder) {
    rec.case(no, tag);
    let mut c = Case::new();
    for l in lines {
        let out = c.exec(l, rec);
        rec.line(l, &out);
    }
    if !c.ended {
        // always evaluate the oracle, even if the op list has no `end`
        c.built = None;
        let aux = c.aux.take().map(|a| a()).unwrap_or("-".into());
        c.oracle(&aux, rec);
    }
}

fn main() {
    let args = Args::parse();
    hv_common::quiet_panics();
    let mut rec = Recorder::new(
        "one case = one push combinator over scripted downstreams (ready/finalize answer scripts per port), driven by the real SendPush/SendSink over a scripted pull (items + Pending placements) or by a contract-conforming manual call history; non-trivial = at least one downstream Pending and at least one item; distinct = distinct op-line sequences",
    );
    match args.mode.as_str() {
        "c12" => {
            if let Some(p) = &args.replay {
                let lines = hv_common::read_lines(p);
                let mut cur: Vec<String> = vec![];
                let mut head: Option<(u64, String)> = None;
                for l in lines {
                    if let Some(rest) = l.strip_prefix("#case ") {
                        if let Some((no, tag)) = head.take() {
                            run_case(no, &tag, &cur, &mut rec);
                        }
                        cur.clear();
                        let mut it = rest.splitn(2, ' ');
                        let no = it.next().unwrap().parse().unwrap_or(0);
                        head = Some((no, it.next().unwrap_or("").to_string()));
                    } else {
                        if head.is_none() {
                            head = Some((0, String::new()));
                        }
                        cur.push(l);
                    }
                }
                if let Some((no, tag)) = head.take() {
                    run_case(no, &tag, &cur, &mut rec);
                }
            } else {
                gen_cases::generate(&args, &mut rec);
            }
        }
        m => {
            eprintln!("unknown mode {m}");
            std::process::exit(2);
        }
    }
    rec.finish(&args.out);
}
