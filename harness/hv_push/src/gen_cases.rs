//! Case generation for the C12 harness: bounded-exhaustive small scopes + seeded random cases
//! (driver mode and adaptive contract-conforming manual call histories) + a small malformed stream.
use crate::{Case, Cfg};
use hv_common::{Args, Recorder, Rng};

/// (combinator, cfg variants, item kind)
#[derive(Clone, Copy, PartialEq)]
enum Kind {
    Int,
    Pair,
    Idx(usize),
    List,
    Fut,
    FutOpt,
    Stream,
}

fn configs() -> Vec<(&'static str, Vec<&'static str>, Kind)> {
    vec![
        ("map", vec![""], Kind::Int),
        ("mutref", vec![""], Kind::Int),
        ("filter", vec![""], Kind::Int),
        ("filter_map", vec![""], Kind::Int),
        ("inspect", vec![""], Kind::Int),
        ("flat_map", vec![""], Kind::Int),
        ("flatten", vec![""], Kind::List),
        ("fanout", vec![""], Kind::Int),
        ("unzip", vec![""], Kind::Pair),
        ("demux", vec!["n=1", "n=2", "n=3"], Kind::Idx(3)),
        ("fold", vec!["", "init=3"], Kind::Int),
        ("fold_ref", vec!["", "init=3"], Kind::Int),
        ("reduce", vec!["", "init=3"], Kind::Int),
        ("reduce_ref", vec!["", "init=3"], Kind::Int),
        ("sortacc", vec![""], Kind::Int),
        ("sort", vec![""], Kind::Int),
        ("fold_keyed", vec!["", "map=0:5", "map=0:5,7:1"], Kind::Pair),
        ("reduce_keyed", vec!["", "map=1:4", "map=0:5,7:1"], Kind::Pair),
        ("persist", vec!["replay=0", "replay=1", "replay=1 buf=4,5", "replay=0 buf=4,5", "replay=1 buf=9,8,7"], Kind::Int),
        (
            "resolve",
            vec!["ord=1 waker=0", "ord=0 waker=0", "ord=1 waker=1", "ord=0 waker=1", "ord=1 waker=0 q=d1:8,d0:9", "ord=0 waker=1 q=d2:8,d0:9", "ord=0 waker=0 q=d2:8,d0:9"],
            Kind::Fut,
        ),
        ("fma", vec![""], Kind::FutOpt),
        ("fms", vec![""], Kind::Stream),
        ("flatten_stream", vec![""], Kind::Stream),
        ("sink", vec![""], Kind::Int),
        ("for_each", vec![""], Kind::Int),
        ("vec_push", vec!["", "buf=1,2"], Kind::Int),
        ("state", vec!["", "st=1,2"], Kind::Int),
        ("pipe", vec!["id=1", "id=1 buf=3,1", "id=2", "id=3", "id=4", "id=4 map=0:5", "id=5"], Kind::Int),
    ]
}

fn gen_item(rng: &mut Rng, kind: Kind, nports: usize) -> String {
    match kind {
        Kind::Int => format!("{}", rng.below(10) as i64 - 2),
        Kind::Pair => format!("{}:{}", rng.below(3), rng.below(6) as i64 - 1),
        Kind::Idx(_) => format!("{}:{}", rng.below(nports as u64), rng.below(9)),
        Kind::List => {
            let n = rng.below(4);
            format!("[{}]", (0..n).map(|_| (rng.below(9) as i64 - 1).to_string()).collect::<Vec<_>>().join(","))
        }
        Kind::Fut => format!("d{}:{}", rng.below(4), rng.below(9)),
        Kind::FutOpt => {
            if rng.chance(1, 3) { format!("d{}:-", rng.below(4)) } else { format!("d{}:{}", rng.below(4), rng.below(9)) }
        }
        Kind::Stream => {
            let n = rng.below(5);
            format!("[{}]", (0..n).map(|_| if rng.chance(1, 3) { ".".to_string() } else { rng.below(9).to_string() }).collect::<Vec<_>>().join(","))
        }
    }
}

/// fixed small inputs for the exhaustive part (chosen to hit the branches of each closure)
fn small_inputs(kind: Kind, nports: usize) -> Vec<Vec<String>> {
    let v = |xs: &[&str]| xs.iter().map(|s| s.to_string()).collect::<Vec<_>>();
    match kind {
        Kind::Int => vec![v(&[]), v(&["2"]), v(&["5", "3", "4"]), v(&["4", "4", "1"])],
        Kind::Pair => vec![v(&[]), v(&["0:3"]), v(&["0:3", "1:2", "0:1"])],
        Kind::Idx(_) => match nports {
            1 => vec![v(&["0:3", "0:4"])],
            2 => vec![v(&["1:3"]), v(&["0:3", "1:4", "0:5"])],
            _ => vec![v(&["2:3", "0:4", "2:5"])],
        },
        Kind::List => vec![v(&["[]"]), v(&["[1,2]"]), v(&["[1]", "[]", "[2,3]"])],
        Kind::Fut => vec![v(&[]), v(&["d0:1"]), v(&["d2:1", "d0:2"]), v(&["d1:1", "d3:2", "d0:3"])],
        Kind::FutOpt => vec![v(&["d0:1"]), v(&["d1:-"]), v(&["d2:1", "d0:-", "d0:2"])],
        Kind::Stream => vec![v(&["[]"]), v(&["[1,2]"]), v(&["[.,1]", "[2,.,.,3]"])],
    }
}

fn bitstrings(max_len: usize) -> Vec<String> {
    let mut out = vec!["-".to_string()];
    for len in 1..=max_len {
        for code in 0..(1u32 << len) {
            out.push((0..len).map(|i| if code >> i & 1 == 1 { '1' } else { '0' }).collect());
        }
    }
    out
}

fn cfg_line(comb: &str, kv: &str, extra: &str) -> String {
    let mut s = format!("cfg {comb}");
    for part in [kv, extra] {
        if !part.is_empty() {
            s.push(' ');
            s.push_str(part);
        }
    }
    s
}

fn nports(comb: &str, kv: &str) -> usize {
    let mut cfg = Cfg { comb: comb.to_string(), kv: Default::default() };
    for p in kv.split(' ').filter(|p| !p.is_empty()) {
        if let Some((k, v)) = p.split_once('=') {
            cfg.kv.insert(k.into(), v.into());
        }
    }
    crate::ports_of(&cfg).unwrap_or(0)
}

/// Run a case in driver mode: the op lines are fixed up front.
fn driver_case(no: &mut u64, tag: &str, cfgl: String, downs: &[(String, String)], pull: &[String], rec: &mut Recorder) {
    let mut lines = vec![cfgl];
    for (p, (r, f)) in downs.iter().enumerate() {
        lines.push(format!("down {p} {r} {f}"));
    }
    lines.push(format!("pull {}", pull.join(" ")).trim_end().to_string());
    *no += 1;
    rec.case(*no, tag);
    let mut c = Case::new();
    for l in &lines {
        let out = c.exec(l, rec);
        rec.line(l, &out);
    }
    // poll until the driver completes (all scripts are finite, so it must)
    for _ in 0..64 {
        let out = c.exec("poll", rec);
        rec.line("poll", &out);
        if !out.starts_with('P') {
            break;
        }
    }
    let out = c.exec("end", rec);
    rec.line("end", &out);
}

/// Run a case with an adaptive, contract-conforming manual call history.
fn manual_case(no: &mut u64, tag: &str, cfgl: String, downs: &[(String, String)], items: &[String], rng: &mut Rng, strict_after_done: bool, rec: &mut Recorder) {
    *no += 1;
    rec.case(*no, tag);
    let mut c = Case::new();
    let mut lines = vec![cfgl];
    for (p, (r, f)) in downs.iter().enumerate() {
        lines.push(format!("down {p} {r} {f}"));
    }
    for l in &lines {
        let out = c.exec(l, rec);
        rec.line(l, &out);
    }
    let mut it = items.iter();
    let mut ready = false;
    let mut steps = 0;
    // phase 1: ready / send
    loop {
        steps += 1;
        if steps > 80 {
            break;
        }
        if ready && rng.chance(4, 5) {
            match it.next() {
                Some(x) => {
                    let l = format!("snd {x}");
                    let out = c.exec(&l, rec);
                    rec.line(&l, &out);
                    ready = false;
                    if out.starts_with("panic") {
                        break;
                    }
                }
                None => break,
            }
        } else if it.len() == 0 && !ready && rng.chance(1, 2) {
            break;
        } else {
            let out = c.exec("rdy", rec);
            rec.line("rdy", &out);
            ready = out.starts_with('1');
            if out.starts_with("panic") {
                break;
            }
        }
    }
    // phase 2: finalize (a poll_ready may be interleaved; never a send)
    let mut done = false;
    for _ in 0..40 {
        if rng.chance(1, 6) {
            let out = c.exec("rdy", rec);
            rec.line("rdy", &out);
            continue;
        }
        let out = c.exec("fin", rec);
        rec.line("fin", &out);
        if out.starts_with('1') {
            done = true;
            break;
        }
        if !out.starts_with('0') {
            break;
        }
        if rng.chance(1, 12) {
            break; // abandon: partial run
        }
    }
    // phase 3: a caller such as Fanout re-polls a finalized branch
    if done && !strict_after_done && rng.chance(1, 2) {
        for _ in 0..rng.range(1, 3) {
            let l = if rng.chance(1, 4) { "rdy" } else { "fin" };
            let out = c.exec(l, rec);
            rec.line(l, &out);
        }
    }
    let out = c.exec("end", rec);
    rec.line("end", &out);
}

/// Deterministic contract-conforming manual history: for every item poll_ready until Done, send;
/// optionally one more poll_ready; then poll_finalize until Done; optionally poll again after Done.
fn manual_fixed(no: &mut u64, tag: &str, cfgl: String, downs: &[(String, String)], items: &[String], rdy_after_last: bool, repoll: bool, rec: &mut Recorder) {
    *no += 1;
    rec.case(*no, tag);
    let mut c = Case::new();
    let mut lines = vec![cfgl];
    for (p, (r, f)) in downs.iter().enumerate() {
        lines.push(format!("down {p} {r} {f}"));
    }
    for l in &lines {
        let out = c.exec(l, rec);
        rec.line(l, &out);
    }
    let mut call = |c: &mut Case, l: &str, rec: &mut Recorder| -> String {
        let out = c.exec(l, rec);
        rec.line(l, &out);
        out
    };
    'outer: {
        for x in items {
            let mut ok = false;
            for _ in 0..12 {
                if call(&mut c, "rdy", rec).starts_with('1') {
                    ok = true;
                    break;
                }
            }
            if !ok {
                break 'outer;
            }
            if call(&mut c, &format!("snd {x}"), rec).starts_with("panic") {
                break 'outer;
            }
        }
        if rdy_after_last {
            call(&mut c, "rdy", rec);
        }
        let mut done = false;
        for _ in 0..16 {
            if call(&mut c, "fin", rec).starts_with('1') {
                done = true;
                break;
            }
        }
        if done && repoll {
            call(&mut c, "fin", rec);
            call(&mut c, "rdy", rec);
            call(&mut c, "fin", rec);
        }
    }
    call(&mut c, "end", rec);
}

/// answer scripts with Pendings at given positions (everything else Done)
fn pend_at(pos: &[usize]) -> String {
    match pos.iter().max() {
        None => "-".into(),
        Some(m) => (0..=*m).map(|i| if pos.contains(&i) { '0' } else { '1' }).collect(),
    }
}

fn with_pendings(items: &[String], places: &[usize]) -> Vec<String> {
    // places: positions (0..=len) before which one Pending is inserted (may repeat)
    let mut out = vec![];
    for i in 0..=items.len() {
        for _ in places.iter().filter(|p| **p == i) {
            out.push(".".to_string());
        }
        if i < items.len() {
            out.push(items[i].clone());
        }
    }
    out
}

fn rand_bits(rng: &mut Rng, max_len: u64) -> String {
    let n = rng.below(max_len + 1);
    if n == 0 {
        return "-".into();
    }
    (0..n).map(|_| if rng.chance(3, 5) { '0' } else { '1' }).collect()
}

pub fn generate(args: &Args, rec: &mut Recorder) {
    let thorough = args.tier == "thorough";
    let root = Rng::new(args.seed);
    let mut no = 0u64;
    let cfgs = configs();

    // ---- bounded-exhaustive small scopes
    for (comb, variants, kind) in &cfgs {
        for kv in variants {
            let np = nports(comb, kv);
            let bl = match np {
                0 => 0,
                1 => {
                    if thorough { 3 } else { 2 }
                }
                2 => {
                    if thorough { 2 } else { 1 }
                }
                _ => 1,
            };
            let bits = bitstrings(bl);
            let fbits: Vec<String> = if np >= 3 && !thorough { vec!["-".into(), "0".into()] } else { bits.clone() };
            // all combinations of scripts over the ports
            let mut combos: Vec<Vec<(String, String)>> = vec![vec![]];
            for _ in 0..np {
                let mut next = vec![];
                for c in &combos {
                    for r in &bits {
                        for f in &fbits {
                            let mut c2 = c.clone();
                            c2.push((r.clone(), f.clone()));
                            next.push(c2);
                        }
                    }
                }
                combos = next;
            }
            for items in small_inputs(*kind, np) {
                // pull pending placements: none, and one pending at every position (two in thorough)
                let mut placements: Vec<Vec<usize>> = vec![vec![]];
                for i in 0..=items.len() {
                    placements.push(vec![i]);
                    if thorough {
                        for j in i..=items.len() {
                            placements.push(vec![i, j]);
                        }
                    }
                }
                for (ci, downs) in combos.iter().enumerate() {
                    for (pi, pl) in placements.iter().enumerate() {
                        // keep the quick tier small: every script combination with the plain pull,
                        // pending pulls on a rotating subset
                        if !thorough && pi > 0 && (ci + pi + args.seed as usize) % 4 != 0 {
                            continue;
                        }
                        let pull = with_pendings(&items, pl);
                        driver_case(&mut no, &format!("comb={comb} exhaustive"), cfg_line(comb, kv, ""), downs, &pull, rec);
                    }
                }
            }
        }
    }

    // ---- bounded-exhaustive manual histories: one or two Pendings at every readiness-poll position
    // (so that a Pending hits the drain loops inside poll_ready / poll_finalize), with and without a
    // poll_ready between the last send and poll_finalize, with and without re-polling after Done
    {
        let maxpos = if thorough { 12 } else { 8 };
        let mut rscripts: Vec<String> = vec!["-".into()];
        for i in 0..maxpos {
            rscripts.push(pend_at(&[i]));
            rscripts.push(pend_at(&[i, i + 1]));
            if thorough {
                rscripts.push(pend_at(&[i, i + 2]));
                rscripts.push(pend_at(&[i, i + 1, i + 2]));
            }
        }
        let fscripts = ["-", "0", "00", "10"];
        let other = ["-", "0", "10", "110"];
        for (comb, variants, kind) in &cfgs {
            for kv in variants {
                let np = nports(comb, kv);
                let strict = false;
                for items in small_inputs(*kind, np) {
                    for (ri, r) in rscripts.iter().enumerate() {
                        for (fi, f) in fscripts.iter().enumerate() {
                            let variant = (ri + fi + args.seed as usize) % 4;
                            let (rdy_after_last, repoll) = (variant & 1 == 1, variant & 2 == 2 && !strict);
                            let mut downs: Vec<(String, String)> = vec![];
                            for p in 0..np {
                                if p == 0 {
                                    downs.push((r.clone(), f.to_string()));
                                } else {
                                    downs.push((other[(ri + p) % 4].to_string(), other[(fi + p + 1) % 4].to_string()));
                                }
                            }
                            if np >= 2 && ri % 2 == 1 {
                                downs.swap(0, 1);
                            }
                            manual_fixed(&mut no, &format!("comb={comb} manual-exhaustive"), cfg_line(comb, kv, ""), &downs, &items, rdy_after_last, repoll, rec);
                            if thorough {
                                manual_fixed(&mut no, &format!("comb={comb} manual-exhaustive"), cfg_line(comb, kv, ""), &downs, &items, !rdy_after_last, !repoll && !strict, rec);
                            }
                        }
                    }
                }
            }
        }
    }

    // ---- seeded random cases
    for i in 0..args.cases {
        let mut rng = root.fork(i);
        let (comb, variants, kind) = &cfgs[rng.below(cfgs.len() as u64) as usize];
        let kv = *rng.pick(variants);
        let np = nports(comb, kv);
        let n_items = rng.below(if thorough { 9 } else { 6 }) as usize;
        let items: Vec<String> = (0..n_items).map(|_| gen_item(&mut rng, *kind, np.max(1))).collect();
        let max_bits = if thorough { 14 } else { 9 };
        let downs: Vec<(String, String)> = (0..np).map(|_| (rand_bits(&mut rng, max_bits), rand_bits(&mut rng, max_bits))).collect();
        let strict = false;
        if rng.chance(7, 10) {
            let n_pend = rng.below(4) as usize;
            let places: Vec<usize> = (0..n_pend).map(|_| rng.below(items.len() as u64 + 1) as usize).collect();
            let mut pull = with_pendings(&items, &places);
            let mut extra = "";
            if rng.chance(1, 6) {
                extra = "drv=sink";
            }
            let malformed = rng.chance(1, 25);
            if malformed {
                // a token of the wrong shape: the whole pull line is rejected
                pull.push("x?".into());
            }
            driver_case(&mut no, &format!("comb={comb} random"), cfg_line(comb, kv, extra), &downs, &pull, rec);
        } else {
            let mut items = items;
            if *comb == "demux" && rng.chance(1, 8) {
                items.push(format!("{}:1", np)); // out-of-range index: documented panic
            }
            manual_case(&mut no, &format!("comb={comb} manual"), cfg_line(comb, kv, ""), &downs, &items, &mut rng, strict, rec);
        }
        if i % 40 == 0 {
            // malformed stream
            no += 1;
            let lines: Vec<String> = ["cfg bogus", "cfg map =1", "down 7 1 1", "cfg map", "down 0 1x -", "frobnicate", "snd zz", "cfg filter", "rdy", "poll", "end", "rdy"]
                .iter()
                .map(|s| s.to_string())
                .collect();
            crate::run_case(no, "malformed", &lines, rec);
        }
    }
}
