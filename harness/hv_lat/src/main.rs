//! C01/C02/C03/C06 harness: drives the real `lattices` types with generated values, writes the
//! transcript diffed against the Lean driver `hvdrv_lat`, and evaluates the properties themselves
//! on the real code (property oracle, independent of the model).
//!
//! Every op line is self-contained (stateless protocol, see lean/HvLat/HvLat/Driver/Main.lean).
mod codec;
use codec::*;
use hv_common::{Args, Recorder, Rng, catch};
use lattices::collections::{
    ArrayMap, ArraySet, OptionMap, OptionSet, SingletonMap, SingletonSet, VecMap, VecSet,
};
use lattices::map_union::MapUnion;
use lattices::set_union::SetUnion;
use lattices::union_find::{UnionFindBTreeMap, UnionFindHashMap, UnionFindSingletonMap};
use lattices::{
    Atomize, Conflict, DomPair, IsBot, IsTop, LatticeFrom, Max, Merge, Min, NaiveLatticeOrd, Pair,
    Point, VecUnion, WithBot, WithTop,
};
use std::cmp::Ordering;
use std::collections::{BTreeMap, BTreeSet, HashMap, HashSet};
use std::panic::AssertUnwindSafe;

#[derive(Clone, Copy, PartialEq, Eq, Debug)]
enum Mode {
    C01,
    C02,
    C03,
    C06,
}

struct Ctx<'a> {
    rec: &'a mut Recorder,
    mode: Mode,
    /// property oracle enabled for this line (off for malformed / outside-the-domain cases)
    oracle: bool,
    line: &'a str,
}
impl Ctx<'_> {
    fn check(&mut self, ok: bool, clause: &str, kind: &str) {
        if self.oracle {
            let sig = format!("{clause}@{kind}");
            let line = self.line.to_string();
            self.rec.check(ok, &sig, &line);
        }
    }
}

fn show_cmp(o: Option<Ordering>) -> &'static str {
    match o {
        None => "none",
        Some(Ordering::Less) => "lt",
        Some(Ordering::Equal) => "eq",
        Some(Ordering::Greater) => "gt",
    }
}
fn le(o: Option<Ordering>) -> bool {
    matches!(o, Some(Ordering::Less) | Some(Ordering::Equal))
}
fn guard<T>(f: impl FnOnce() -> T) -> Option<T> {
    catch(AssertUnwindSafe(f)).ok()
}

/// everything a registered "self" lattice type must implement (this is `Lattice` + codec, minus
/// `LatticeFrom<Self>`, which gets its own handler so that a type can be registered without it)
trait Lat: Codec + Merge<Self> + PartialOrd + PartialEq + IsBot + IsTop + NaiveLatticeOrd {}
impl<T> Lat for T where T: Codec + Merge<T> + PartialOrd + PartialEq + IsBot + IsTop + NaiveLatticeOrd {}

type Handler = fn(&mut Ctx, &str, &[&str]) -> Option<String>;

fn merged<A: Clone + Merge<B>, B>(a: &A, b: B) -> A {
    Merge::merge_owned(a.clone(), b)
}

fn self_ops<T: Lat>(cx: &mut Ctx, op: &str, args: &[&str]) -> Option<String> {
    let k = T::kind();
    match (op, args) {
        ("merge", [a, b]) => {
            let a: T = parse_full(a)?;
            let b: T = parse_full(b)?;
            let old = a.clone();
            let mut r = a.clone();
            let Some(ch) = guard(|| r.merge(b.clone())) else { return Some("panic".into()) };
            cx.rec.count(&format!("merge:{k}:changed={ch}"));
            if ch {
                cx.rec.nontrivial();
            }
            match cx.mode {
                Mode::C01 => {
                    cx.check(r == merged(&b, a.clone()), "c01-comm", k);
                    cx.check(merged(&a, a.clone()) == a, "c01-idem", k);
                    cx.check(merged(&r, a.clone()) == r && merged(&r, b.clone()) == r, "c01-ub", k);
                }
                Mode::C02 => {
                    cx.check(ch == (r != old), "c02-flag", k);
                    cx.check(!ch == le(b.partial_cmp(&old)), "c02-flag-le", k);
                    cx.check(le(old.partial_cmp(&r)), "c02-grows", k);
                }
                _ => {}
            }
            Some(format!("{} {}", r.show(), ch))
        }
        ("assoc", [a, b, c]) => {
            let a: T = parse_full(a)?;
            let b: T = parse_full(b)?;
            let c: T = parse_full(c)?;
            let Some((l, r)) = guard(|| (merged(&merged(&a, b.clone()), c.clone()), merged(&a, merged(&b, c.clone()))))
            else {
                return Some("panic".into());
            };
            if cx.mode == Mode::C01 {
                cx.check(l == r, "c01-assoc", k);
            }
            cx.rec.count(&format!("assoc:{k}"));
            Some(format!("{} {}", l.show(), r.show()))
        }
        ("cmp", [a, b]) => {
            let a: T = parse_full(a)?;
            let b: T = parse_full(b)?;
            let Some(c) = guard(|| a.partial_cmp(&b)) else { return Some("panic".into()) };
            cx.rec.count(&format!("cmp:{k}:{}", show_cmp(c)));
            if c != Some(Ordering::Equal) {
                cx.rec.nontrivial();
            }
            if cx.mode == Mode::C03 {
                cx.check(c == NaiveLatticeOrd::naive_cmp(&a, &b), "c03-naive", k);
                cx.check((a == b) == (c == Some(Ordering::Equal)), "c03-eq", k);
                cx.check(c == b.partial_cmp(&a).map(Ordering::reverse), "c03-dual", k);
                let mut bb = b.clone();
                cx.check(le(c) == !bb.merge(a.clone()), "c03-le-merge", k);
            }
            Some(show_cmp(c).into())
        }
        ("eq", [a, b]) => {
            let a: T = parse_full(a)?;
            let b: T = parse_full(b)?;
            let Some(e) = guard(|| a == b) else { return Some("panic".into()) };
            if cx.mode == Mode::C03 {
                cx.check(e == (b == a), "c03-eqsym", k);
                cx.check(a == a.clone(), "c03-eqrefl", k);
            }
            Some(e.to_string())
        }
        ("trans", [a, b, c]) => {
            let a: T = parse_full(a)?;
            let b: T = parse_full(b)?;
            let c: T = parse_full(c)?;
            let Some((ab, bc, ac)) = guard(|| (a.partial_cmp(&b), b.partial_cmp(&c), a.partial_cmp(&c))) else {
                return Some("panic".into());
            };
            if cx.mode == Mode::C03 {
                cx.check(!(le(ab) && le(bc)) || le(ac), "c03-trans", k);
                cx.check(!(a == b && b == c) || a == c, "c03-eqtrans", k);
                let strict = ab == Some(Ordering::Less) || bc == Some(Ordering::Less);
                cx.check(!(le(ab) && le(bc) && strict) || ac == Some(Ordering::Less), "c03-trans-strict", k);
            }
            Some(format!("{} {} {}", show_cmp(ab), show_cmp(bc), show_cmp(ac)))
        }
        ("isbot", [a]) => {
            let a: T = parse_full(a)?;
            let r = a.is_bot();
            cx.rec.count(&format!("isbot:{k}:{r}"));
            if cx.mode == Mode::C03 {
                cx.check(r == a.spec_bot(), "c03-isbot", k);
                if r {
                    let ok = T::pool().into_iter().all(|mut p| guard(|| !p.merge(a.clone())).unwrap_or(true));
                    cx.check(ok, "c03-bot-least", k);
                }
            }
            Some(r.to_string())
        }
        ("istop", [a]) => {
            let a: T = parse_full(a)?;
            let r = a.is_top();
            cx.rec.count(&format!("istop:{k}:{r}"));
            if cx.mode == Mode::C03 {
                cx.check(r == a.spec_top(), "c03-istop", k);
                // a type all of whose values are bottom is a one-point lattice: every value is greatest
                let degenerate = T::pool().iter().all(|p| p.spec_bot()) && a.spec_bot();
                cx.check(!degenerate || r, "c03-istop-degenerate", k);
                if r {
                    let ok = T::pool().into_iter().all(|p| {
                        let mut x = a.clone();
                        guard(|| !x.merge(p)).unwrap_or(true)
                    });
                    cx.check(ok, "c03-top-greatest", k);
                }
            }
            Some(r.to_string())
        }
        _ => None,
    }
}

fn from_op<T: Lat + LatticeFrom<T>>(cx: &mut Ctx, op: &str, args: &[&str]) -> Option<String> {
    let k = T::kind();
    match (op, args) {
        ("from", [b]) => {
            let b: T = parse_full(b)?;
            let r = T::lattice_from(b.clone());
            cx.rec.count(&format!("from:{k}"));
            if cx.mode == Mode::C01 {
                cx.check(r == b, "c01-from", k);
            }
            Some(r.show())
        }
        _ => None,
    }
}

fn default_op<T: Lat + Default>(cx: &mut Ctx, op: &str, args: &[&str]) -> Option<String> {
    match (op, args) {
        ("default", []) => {
            let d = T::default();
            if cx.mode == Mode::C03 {
                cx.check(d.is_bot() && d.spec_bot(), "c03-default", T::kind());
            }
            Some(d.show())
        }
        _ => None,
    }
}

fn atom_op<T>(cx: &mut Ctx, op: &str, args: &[&str]) -> Option<String>
where
    T: Lat + Default + Atomize,
    T::Atom: Codec,
{
    match (op, args) {
        ("atomize", [a]) => {
            let a: T = parse_full(a)?;
            let atoms: Vec<T::Atom> = a.clone().atomize().collect();
            let k = T::kind();
            cx.rec.count(&format!("atomize:{k}:n={}", atoms.len().min(4)));
            if !atoms.is_empty() {
                cx.rec.nontrivial();
            }
            if cx.mode == Mode::C06 {
                cx.check(atoms.iter().all(|x| !x.is_bot()), "c06-nonbot", k);
                cx.check(atoms.is_empty() == a.is_bot(), "c06-empty-iff-bot", k);
                let mut re = T::default();
                for x in atoms.iter().cloned() {
                    re.merge(x);
                }
                cx.check(re == a, "c06-reform", k);
            }
            let mut ss: Vec<String> = atoms.iter().map(|x| x.show()).collect();
            ss.sort();
            Some(if ss.is_empty() { "-".into() } else { ss.join("|") })
        }
        _ => None,
    }
}

/// cross-representation pair with the full set of impls
fn cross_ops<A, B>(cx: &mut Ctx, op: &str, args: &[&str]) -> Option<String>
where
    A: Lat + Merge<B> + LatticeFrom<B> + PartialOrd<B> + PartialEq<B>,
    B: Codec,
{
    let k = A::kind();
    match (op, args) {
        ("merge", [a, b]) => {
            let a: A = parse_full(a)?;
            let b: B = parse_full(b)?;
            let old = a.clone();
            let mut r = a.clone();
            let Some(ch) = guard(|| r.merge(b.clone())) else { return Some("panic".into()) };
            cx.rec.count(&format!("xmerge:{k}:changed={ch}"));
            if ch {
                cx.rec.nontrivial();
            }
            let conv = A::lattice_from(b.clone());
            match cx.mode {
                Mode::C01 => cx.check(r == merged(&a, conv), "c01-cross", k),
                Mode::C02 => {
                    cx.check(ch == (r != old), "c02-flag-cross", k);
                    cx.check(!ch == le(conv.partial_cmp(&old)), "c02-flag-le-cross", k);
                }
                _ => {}
            }
            Some(format!("{} {}", r.show(), ch))
        }
        ("from", [b]) => {
            let b: B = parse_full(b)?;
            Some(A::lattice_from(b).show())
        }
        ("cmp", [a, b]) => {
            let a: A = parse_full(a)?;
            let b: B = parse_full(b)?;
            let c = a.partial_cmp(&b);
            cx.rec.count(&format!("xcmp:{k}:{}", show_cmp(c)));
            if cx.mode == Mode::C03 {
                let conv = A::lattice_from(b.clone());
                cx.check(c == a.partial_cmp(&conv), "c03-cross-cmp", k);
                cx.check((a == b) == (c == Some(Ordering::Equal)), "c03-cross-eq", k);
                let mut x = a.clone();
                cx.check(!x.merge(b.clone()) == matches!(c, Some(Ordering::Greater) | Some(Ordering::Equal)), "c03-cross-ge-merge", k);
            }
            Some(show_cmp(c).into())
        }
        ("eq", [a, b]) => {
            let a: A = parse_full(a)?;
            let b: B = parse_full(b)?;
            Some((a == b).to_string())
        }
        _ => None,
    }
}

/// pair of representations that can only be compared
fn cmp_ops<A, B>(cx: &mut Ctx, op: &str, args: &[&str]) -> Option<String>
where
    A: Codec + PartialOrd<B> + PartialEq<B>,
    B: Codec + PartialOrd<A> + PartialEq<A>,
{
    let k = A::kind();
    match (op, args) {
        ("cmp", [a, b]) => {
            let a: A = parse_full(a)?;
            let b: B = parse_full(b)?;
            let c = a.partial_cmp(&b);
            cx.rec.count(&format!("xcmp:{k}:{}", show_cmp(c)));
            if cx.mode == Mode::C03 {
                cx.check(c == b.partial_cmp(&a).map(Ordering::reverse), "c03-cross-dual", k);
                cx.check((a == b) == (c == Some(Ordering::Equal)), "c03-cross-eq", k);
            }
            Some(show_cmp(c).into())
        }
        ("eq", [a, b]) => {
            let a: A = parse_full(a)?;
            let b: B = parse_full(b)?;
            let e = a == b;
            if cx.mode == Mode::C03 {
                cx.check(e == (b == a), "c03-cross-eqsym", k);
            }
            Some(e.to_string())
        }
        _ => None,
    }
}

type Pt = Point<u32, ()>;
fn point_ops(cx: &mut Ctx, op: &str, args: &[&str]) -> Option<String> {
    let num = |s: &str| -> Option<Pt> {
        let mut p = Ps::new(s);
        let n = p.num()?;
        if !p.done() {
            return None;
        }
        u32::try_from(n).ok().map(Pt::new)
    };
    match (op, args) {
        ("merge", ["pt", "pt", a, b]) => {
            let a = num(a)?;
            let b = num(b)?;
            let mut r = a;
            let res = guard(|| r.merge(b));
            cx.rec.count(&format!("merge:Point:{}", if res.is_some() { "ok" } else { "panic" }));
            if cx.mode == Mode::C01 {
                cx.check(res.is_some() == (a.val == b.val), "c01-point-eq-only", "Point");
                cx.check(res != Some(true) && r.val == a.val, "c01-point-unchanged", "Point");
            }
            Some(match res {
                Some(ch) => format!("{} {}", r.val, ch),
                None => "panic".into(),
            })
        }
        ("cmp", ["pt", "pt", a, b]) => {
            let a = num(a)?;
            let b = num(b)?;
            let res = guard(|| a.partial_cmp(&b));
            cx.rec.count(&format!("cmp:Point:{}", if res.is_some() { "ok" } else { "panic" }));
            if cx.mode == Mode::C03 {
                // comparable exactly when equal, and then `Equal`
                cx.check(res.is_some() == (a.val == b.val), "c03-point-cmp-eq-only", "Point");
                cx.check(res.is_none() || res == Some(Some(Ordering::Equal)), "c03-point-cmp-equal", "Point");
            }
            Some(match res {
                Some(c) => show_cmp(c).into(),
                None => "panic".into(),
            })
        }
        ("eq", ["pt", "pt", a, b]) => {
            let (a, b) = (num(a)?, num(b)?);
            let e = a == b;
            if cx.mode == Mode::C03 {
                cx.check(e == (a.val == b.val), "c03-point-eq", "Point");
            }
            Some(e.to_string())
        }
        ("isbot", ["pt", a]) => Some(num(a)?.is_bot().to_string()),
        ("istop", ["pt", a]) => Some(num(a)?.is_top().to_string()),
        ("default", ["pt"]) => Some(Pt::default().val.to_string()),
        ("from", ["pt", "pt", a]) => Some(Pt::lattice_from(num(a)?).val.to_string()),
        _ => None,
    }
}

// ------------------------------------------------------------------------------- union-find Atomize
/// `ufatomize <h|b> <a-b,c-d,..|->`: a union-find value built by `union` calls from `Default` (the states
/// the library produces), atomized.  The answer is the number of atoms (the atoms themselves depend on the
/// path compression history); the three C06 clauses are evaluated on the real code, the re-merged value is
/// also compared with a naive partition through `same`.
fn parse_pairs(s: &str) -> Option<Vec<(u32, u32)>> {
    if s == "-" {
        return Some(vec![]);
    }
    s.split(',')
        .map(|p| {
            let (a, b) = p.split_once('-')?;
            if a.len() > 6 || b.len() > 6 {
                return None;
            }
            Some((a.parse().ok()?, b.parse().ok()?))
        })
        .collect()
}
macro_rules! uf_case {
    ($ty:ty, $cx:expr, $pairs:expr) => {{
        let mut uf = <$ty>::default();
        for (a, b) in $pairs.iter() {
            uf.union(*a, *b);
        }
        let atoms: Vec<UnionFindSingletonMap<u32>> = uf.clone().atomize().collect();
        $cx.rec.count(&format!("ufatomize:n={}", atoms.len().min(4)));
        if !atoms.is_empty() {
            $cx.rec.nontrivial();
        }
        if $cx.mode == Mode::C06 {
            $cx.check(atoms.iter().all(|x| !x.is_bot()), "c06-nonbot", "UnionFind");
            $cx.check(atoms.is_empty() == uf.is_bot(), "c06-empty-iff-bot", "UnionFind");
            let mut re = <$ty>::default();
            for x in atoms.iter().cloned() {
                re.merge(x);
            }
            $cx.check(re == uf, "c06-reform", "UnionFind");
            // naive partition: class label per element
            let elems: Vec<u32> = $pairs.iter().flat_map(|(a, b)| [*a, *b]).collect();
            let mut cls: HashMap<u32, u32> = elems.iter().map(|x| (*x, *x)).collect();
            for (a, b) in $pairs.iter() {
                let (ca, cb) = (cls[a], cls[b]);
                for v in cls.values_mut() {
                    if *v == cb {
                        *v = ca;
                    }
                }
            }
            let ok = elems.iter().all(|a| elems.iter().all(|b| re.same(*a, *b).into_reveal() == (cls[a] == cls[b])));
            $cx.check(ok, "c06-reform-partition", "UnionFind");
        }
        atoms.len().to_string()
    }};
}
fn uf_ops(cx: &mut Ctx, args: &[&str]) -> Option<String> {
    match args {
        [r, ps] => {
            let pairs = parse_pairs(ps)?;
            match *r {
                "h" => Some(uf_case!(UnionFindHashMap<u32>, cx, pairs)),
                "b" => Some(uf_case!(UnionFindBTreeMap<u32>, cx, pairs)),
                _ => None,
            }
        }
        _ => None,
    }
}

// ------------------------------------------------------------------------------- registry
struct TypeInfo {
    desc: String,
    generate: fn(&mut Rng, bool) -> String,
    pool: Vec<String>,
    has_default: bool,
    atomizable: bool,
    /// registered with the `from` op (`LatticeFrom<Self>`)
    has_from: bool,
    /// property oracle applies (false for DomPair with a partially ordered key: documented non-lattice)
    lawful: bool,
}
struct PairInfo {
    a: String,
    b: String,
    gen_a: fn(&mut Rng, bool) -> String,
    gen_b: fn(&mut Rng, bool) -> String,
    full: bool,
}
#[derive(Default)]
struct Registry {
    handlers: HashMap<String, Vec<Handler>>,
    types: Vec<TypeInfo>,
    pairs: Vec<PairInfo>,
    unlawful: HashSet<String>,
}
fn gen_text<T: Codec>(rng: &mut Rng, big: bool) -> String {
    T::generate(rng, big).show()
}
impl Registry {
    fn add<T: Lat + LatticeFrom<T>>(&mut self, lawful: bool) {
        self.add_nf::<T>(lawful);
        self.handlers.get_mut(&T::desc()).unwrap().push(from_op::<T>);
        self.types.last_mut().unwrap().has_from = true;
    }
    /// without the `from` op: `WithTop<Conflict<_>>` — kept apart so that the harness does not depend on
    /// the exact bounds of `LatticeFrom for WithTop` (the other WithTop instantiations exercise it)
    fn add_nf<T: Lat>(&mut self, lawful: bool) {
        let d = T::desc();
        assert!(!self.handlers.contains_key(&d), "duplicate type {d}");
        self.handlers.entry(d.clone()).or_default().push(self_ops::<T>);
        if !lawful {
            self.unlawful.insert(d.clone());
        }
        self.types.push(TypeInfo {
            desc: d,
            generate: gen_text::<T>,
            pool: T::pool().iter().map(|x| x.show()).collect(),
            has_default: false,
            atomizable: false,
            has_from: false,
            lawful,
        });
    }
    fn add_d<T: Lat + LatticeFrom<T> + Default>(&mut self, lawful: bool) {
        self.add::<T>(lawful);
        self.handlers.get_mut(&T::desc()).unwrap().push(default_op::<T>);
        self.types.last_mut().unwrap().has_default = true;
    }
    fn add_da<T>(&mut self)
    where
        T: Lat + LatticeFrom<T> + Default + Atomize,
        T::Atom: Codec,
    {
        self.add_d::<T>(true);
        self.handlers.get_mut(&T::desc()).unwrap().push(atom_op::<T>);
        self.types.last_mut().unwrap().atomizable = true;
    }
    fn cross<A, B>(&mut self)
    where
        A: Lat + Merge<B> + LatticeFrom<B> + PartialOrd<B> + PartialEq<B>,
        B: Codec,
    {
        self.handlers.entry(format!("{}|{}", A::desc(), B::desc())).or_default().push(cross_ops::<A, B>);
        self.pairs.push(PairInfo { a: A::desc(), b: B::desc(), gen_a: gen_text::<A>, gen_b: gen_text::<B>, full: true });
    }
    fn cmp_only<A, B>(&mut self)
    where
        A: Codec + PartialOrd<B> + PartialEq<B>,
        B: Codec + PartialOrd<A> + PartialEq<A>,
    {
        self.handlers.entry(format!("{}|{}", A::desc(), B::desc())).or_default().push(cmp_ops::<A, B>);
        self.pairs.push(PairInfo { a: A::desc(), b: B::desc(), gen_a: gen_text::<A>, gen_b: gen_text::<B>, full: false });
    }
}

type SH = SetUnion<HashSet<u32>>;
type SB = SetUnion<BTreeSet<u32>>;
type SV = SetUnion<VecSet<u32>>;
type SA = SetUnion<ArraySet<u32, 2>>;
type SO = SetUnion<OptionSet<u32>>;
type SS = SetUnion<SingletonSet<u32>>;
type MH<V> = MapUnion<HashMap<u32, V>>;
type MB<V> = MapUnion<BTreeMap<u32, V>>;
type MV<V> = MapUnion<VecMap<u32, V>>;
type MA<V> = MapUnion<ArrayMap<u32, V, 2>>;
type MO<V> = MapUnion<OptionMap<u32, V>>;
type MS<V> = MapUnion<SingletonMap<u32, V>>;
type X8 = Max<u8>;
type N8 = Min<u8>;
type X32 = Max<u32>;
type N32 = Min<u32>;
type XB = Max<bool>;
type NB = Min<bool>;
type CF = Conflict<u32>;
type WB<T> = WithBot<T>;
type WT<T> = WithTop<T>;
type PR<A, B> = Pair<A, B>;
type DP<A, B> = DomPair<A, B>;
type VU<T> = VecUnion<T>;

macro_rules! reg {
    ($r:ident . $m:ident : $($t:ty),* $(,)?) => { $( $r.$m::<$t>(); )* };
    ($r:ident . $m:ident ($e:expr) : $($t:ty),* $(,)?) => { $( $r.$m::<$t>($e); )* };
}
macro_rules! reg2 {
    ($r:ident . $m:ident : $(($a:ty, $b:ty)),* $(,)?) => { $( $r.$m::<$a, $b>(); )* };
}

fn registry() -> Registry {
    let mut r = Registry::default();
    // types with Default + Atomize
    reg!(r.add_da: (), SH, SB,
        MH<SH>, MB<SB>, MH<SB>, MB<SH>, MH<()>, MB<()>,
        WB<SH>, WT<SH>, WB<()>, WT<()>,
        MH<MH<SH>>, MH<WB<SH>>, MB<WT<SB>>, WT<WB<SH>>, WB<MH<SH>>, WT<MH<SH>>, WB<WT<SB>>);
    // types with Default, not Atomize
    reg!(r.add_d(true): X8, N8, X32, N32, XB, NB,
        MH<X8>, MB<X8>, MH<NB>, MB<NB>, MH<CF>, MB<CF>,
        WB<X8>, WB<N8>, WB<XB>, WB<CF>, WT<X8>, WT<N8>, WT<XB>,
        VU<X8>, VU<N8>, VU<XB>, VU<SH>, VU<CF>, VU<()>,
        PR<X8, NB>, PR<SH, X8>, PR<SH, SB>, PR<(), XB>,
        DP<X8, SH>, DP<N8, X8>, DP<XB, SH>, DP<WB<X8>, SH>, DP<WT<N8>, X8>, DP<X8, ()>,
        MH<MB<X8>>, MH<WB<X8>>, MH<WT<X8>>, MH<PR<X8, SH>>, MH<VU<X8>>, MH<DP<X8, SH>>,
        WB<WB<X8>>, WB<WT<X8>>, WT<WT<XB>>, WB<PR<X8, SH>>, WT<PR<XB, NB>>, WT<VU<X8>>, WB<VU<SH>>,
        WB<DP<X8, SH>>, PR<MH<X8>, SH>, PR<WB<X8>, WT<XB>>, PR<PR<X8, XB>, SH>, PR<VU<X8>, MH<XB>>,
        VU<MH<X8>>, VU<WB<SH>>, VU<WT<X8>>, VU<PR<X8, SH>>, VU<VU<X8>>,
        DP<X8, MH<SH>>, DP<DP<X8, N8>, SH>, DP<X8, WB<SH>>, DP<X8, VU<X8>>);
    // signed integers (bottom of Max is the negative MIN)
    reg!(r.add_d(true): Max<i8>, Min<i8>, Max<i32>, Min<i32>, MH<Max<i8>>, WB<Min<i8>>, WT<Max<i8>>,
        DP<Max<i8>, SH>, PR<Max<i8>, Min<i32>>, VU<Min<i8>>);
    // the other instantiations of ord.rs's `impls_numeric!` list and the hand-written `char` impls
    reg!(r.add_d(true): Max<u16>, Min<u16>, Max<u64>, Min<u64>, Max<u128>, Min<u128>, Max<usize>, Min<usize>,
        Max<i16>, Min<i16>, Max<i64>, Min<i64>, Max<i128>, Min<i128>, Max<isize>, Min<isize>, Max<char>, Min<char>,
        WB<Max<char>>, WT<Min<char>>, MH<Min<u128>>, DP<Max<char>, SH>, WT<Min<i128>>, VU<Max<u64>>, PR<Max<i64>, Min<u16>>);
    // #[derive(Lattice)] structs with three fields
    reg!(r.add_d(true): Tri<X8, SH, XB>, Tri<WT<X8>, MH<SH>, NB>, Tri<SH, SB, VU<X8>>, Tri<(), X8, WB<SH>>,
        MH<Tri<X8, SH, XB>>, WB<Tri<X8, XB, NB>>);
    reg!(r.add(true): Tri<CF, X8, SH>);
    // DomPair over a partially ordered key: documented not to be a lattice; correspondence only
    reg!(r.add_d(false): DP<PR<X8, XB>, SH>, DP<SH, X8>);
    // no Default
    reg!(r.add(true): CF, PR<CF, X8>, DP<X8, CF>);
    reg!(r.add_nf(true): WT<CF>);

    // cross-representation pairs (Self, Other)
    reg2!(r.cross: (SH, SB), (SH, SV), (SH, SA), (SH, SO), (SH, SS), (SB, SH), (SB, SV), (SB, SA), (SB, SO), (SB, SS));
    reg2!(r.cross: (MH<SH>, MB<SB>), (MH<SH>, MV<SV>), (MH<SH>, MA<SS>), (MH<SH>, MO<SO>), (MH<SH>, MS<SS>),
        (MB<SB>, MH<SH>), (MB<X8>, MV<X8>), (MH<X8>, MV<X8>), (MH<X8>, MA<X8>), (MH<X8>, MS<X8>), (MH<X8>, MO<X8>),
        (MH<WB<SH>>, MS<WB<SS>>), (MH<MH<SH>>, MS<MS<SS>>), (MH<CF>, MV<CF>));
    reg2!(r.cross: (Tri<X8, SH, MH<SH>>, Tri<X8, SV, MS<SS>>));
    reg2!(r.cross: (WB<SH>, WB<SS>), (WB<SH>, WB<SV>), (WT<SH>, WT<SS>), (WT<SB>, WT<SA>),
        (PR<SH, SB>, PR<SS, SV>), (VU<SH>, VU<SS>), (DP<X8, SH>, DP<X8, SS>), (WB<MH<SH>>, WB<MS<SS>>));
    // compare-only pairs
    reg2!(r.cmp_only: (SV, SA), (SS, SH), (SV, SH), (SA, SB), (SO, SS), (SV, SV), (SA, SA), (SO, SO),
        (MV<X8>, MH<X8>), (MV<X8>, MV<X8>), (MA<X8>, MV<X8>), (MS<SS>, MH<SH>), (MO<X8>, MA<X8>));
    r
}

fn exec(reg: &Registry, rec: &mut Recorder, mode: Mode, oracle_on: bool, line: &str) -> String {
    let parts: Vec<&str> = line.split(' ').collect();
    let op = parts[0];
    let args = &parts[1..];
    if op == "ufatomize" {
        let mut cx = Ctx { rec, mode, oracle: oracle_on, line };
        return uf_ops(&mut cx, args).unwrap_or_else(|| "bad-op".into());
    }
    if args.contains(&"pt") {
        let mut cx = Ctx { rec, mode, oracle: oracle_on, line };
        return point_ops(&mut cx, op, args).unwrap_or_else(|| "bad-op".into());
    }
    // (key, remaining args)
    let (key, rest): (String, &[&str]) = match (op, args.len()) {
        ("merge" | "cmp" | "eq", 4) => {
            if args[0] == args[1] { (args[0].to_string(), &args[2..]) } else { (format!("{}|{}", args[0], args[1]), &args[2..]) }
        }
        ("from", 3) => {
            if args[0] == args[1] { (args[0].to_string(), &args[2..]) } else { (format!("{}|{}", args[0], args[1]), &args[2..]) }
        }
        ("assoc" | "trans", 4) | ("isbot" | "istop" | "atomize", 2) | ("default", 1) => (args[0].to_string(), &args[1..]),
        _ => return "bad-op".into(),
    };
    let mut hs: Vec<Handler> = reg.handlers.get(&key).cloned().unwrap_or_default();
    if args.len() >= 2 && args[0] == args[1] {
        // compare-only pair of one representation with itself
        hs.extend(reg.handlers.get(&format!("{}|{}", args[0], args[1])).cloned().unwrap_or_default());
    }
    if hs.is_empty() {
        return "bad-op".into();
    }
    let lawful = !reg.unlawful.contains(args[0]);
    let mut cx = Ctx { rec, mode, oracle: oracle_on && lawful, line };
    for h in &hs {
        if let Some(out) = h(&mut cx, op, rest) {
            return out;
        }
    }
    "bad-op".into()
}

// ------------------------------------------------------------------------------- generation
fn lines_for_triple(mode: Mode, t: &TypeInfo, a: &str, b: &str, c: &str) -> Vec<String> {
    let d = &t.desc;
    let mut ls = vec![];
    match mode {
        Mode::C01 => {
            ls.push(format!("merge {d} {d} {a} {b}"));
            ls.push(format!("merge {d} {d} {b} {a}"));
            ls.push(format!("merge {d} {d} {a} {a}"));
            ls.push(format!("assoc {d} {a} {b} {c}"));
            ls.push(format!("assoc {d} {c} {a} {b}"));
            if t.has_from {
                ls.push(format!("from {d} {d} {b}"));
            }
        }
        Mode::C02 => {
            for x in [a, b, c] {
                for y in [a, b, c] {
                    ls.push(format!("merge {d} {d} {x} {y}"));
                }
            }
        }
        Mode::C03 => {
            for x in [a, b, c] {
                for y in [a, b, c] {
                    ls.push(format!("cmp {d} {d} {x} {y}"));
                    ls.push(format!("eq {d} {d} {x} {y}"));
                }
            }
            ls.push(format!("trans {d} {a} {b} {c}"));
            ls.push(format!("trans {d} {c} {b} {a}"));
            ls.push(format!("merge {d} {d} {a} {b}"));
            for x in [a, b, c] {
                ls.push(format!("isbot {d} {x}"));
                ls.push(format!("istop {d} {x}"));
            }
            ls.push(format!("default {d}"));
        }
        Mode::C06 => {
            for x in [a, b, c] {
                ls.push(format!("atomize {d} {x}"));
                ls.push(format!("isbot {d} {x}"));
            }
        }
    }
    ls
}

fn lines_for_pair(mode: Mode, p: &PairInfo, a: &str, b: &str) -> Vec<String> {
    let (da, db) = (&p.a, &p.b);
    let mut ls = vec![];
    match mode {
        Mode::C01 | Mode::C02 => {
            if p.full {
                ls.push(format!("merge {da} {db} {a} {b}"));
                ls.push(format!("from {da} {db} {b}"));
            }
        }
        Mode::C03 => {
            ls.push(format!("cmp {da} {db} {a} {b}"));
            ls.push(format!("eq {da} {db} {a} {b}"));
            if p.full {
                ls.push(format!("merge {da} {db} {a} {b}"));
            }
        }
        Mode::C06 => {}
    }
    ls
}

fn run_case(reg: &Registry, rec: &mut Recorder, mode: Mode, no: u64, tag: &str, lines: &[String]) {
    rec.case(no, tag);
    let oracle_on = !tag.contains("malformed");
    for l in lines {
        let out = exec(reg, rec, mode, oracle_on, l);
        rec.line(l, &out);
    }
}

fn main() {
    let args = Args::parse();
    hv_common::quiet_panics();
    let mode = match args.mode.as_str() {
        "c01" => Mode::C01,
        "c02" => Mode::C02,
        "c03" => Mode::C03,
        "c06" => Mode::C06,
        m => {
            eprintln!("unknown mode {m}");
            std::process::exit(2);
        }
    };
    let reg = registry();
    let mut rec = Recorder::new(
        "one case = one concrete lattice type (or cross-representation pair) and up to three values; \
         non-trivial = the case contains a merge that changed the receiver, a comparison that is not `eq`, \
         or a non-empty atomization; distinct = distinct op-line sequences",
    );
    if let Some(p) = &args.replay {
        let lines = hv_common::read_lines(p);
        let mut cur: Vec<String> = vec![];
        let mut head: Option<(u64, String)> = None;
        let flush = |head: &Option<(u64, String)>, cur: &mut Vec<String>, rec: &mut Recorder| {
            if let Some((no, tag)) = head {
                run_case(&reg, rec, mode, *no, tag, cur);
            } else if !cur.is_empty() {
                run_case(&reg, rec, mode, 0, "", cur);
            }
            cur.clear();
        };
        for l in lines {
            if let Some(rest) = l.strip_prefix("#case ") {
                flush(&head, &mut cur, &mut rec);
                let mut it = rest.splitn(2, ' ');
                let no = it.next().unwrap().parse().unwrap_or(0);
                head = Some((no, it.next().unwrap_or("").to_string()));
            } else if l.starts_with("#case") {
                flush(&head, &mut cur, &mut rec);
                head = Some((0, String::new()));
            } else {
                cur.push(l);
            }
        }
        flush(&head, &mut cur, &mut rec);
        rec.finish(&args.out);
        return;
    }

    let thorough = args.tier == "thorough";
    let mut no = 0u64;
    // part 1: bounded-exhaustive over the deterministic pools
    for t in &reg.types {
        if mode == Mode::C06 && !t.atomizable {
            continue;
        }
        let n = t.pool.len();
        if mode == Mode::C06 {
            for a in &t.pool {
                no += 1;
                run_case(&reg, &mut rec, mode, no, &format!("ty={} pool", t.desc), &lines_for_triple(mode, t, a, a, a)[..2]);
            }
            continue;
        }
        for i in 0..n {
            for j in 0..n {
                if thorough {
                    for k in 0..n {
                        no += 1;
                        let ls = lines_for_triple(mode, t, &t.pool[i], &t.pool[j], &t.pool[k]);
                        run_case(&reg, &mut rec, mode, no, &format!("ty={} pool3", t.desc), &ls);
                    }
                } else {
                    no += 1;
                    let k = (i + 2 * j + 1) % n;
                    let ls = lines_for_triple(mode, t, &t.pool[i], &t.pool[j], &t.pool[k]);
                    run_case(&reg, &mut rec, mode, no, &format!("ty={} pool2", t.desc), &ls);
                }
            }
        }
    }
    let root = Rng::new(args.seed);
    if mode == Mode::C06 {
        // union-find: every sequence of <= 2 unions over {0,1,2}, both backings
        let dom: Vec<(u32, u32)> = (0..3).flat_map(|a| (0..3).map(move |b| (a, b))).collect();
        let show = |ps: &[(u32, u32)]| if ps.is_empty() { "-".to_string() } else { ps.iter().map(|(a, b)| format!("{a}-{b}")).collect::<Vec<_>>().join(",") };
        let mut seqs: Vec<Vec<(u32, u32)>> = vec![vec![]];
        for p in &dom {
            seqs.push(vec![*p]);
            for q in &dom {
                seqs.push(vec![*p, *q]);
            }
        }
        for (i, sq) in seqs.iter().enumerate() {
            no += 1;
            let r = if i % 2 == 0 { "h" } else { "b" };
            run_case(&reg, &mut rec, mode, no, "ty=uf pool", &[format!("ufatomize {r} {}", show(sq))]);
        }
        // seeded random union histories
        for i in 0..(args.cases / 8).max(20) {
            let mut rng = root.fork(1_000_000 + i);
            let d = if rng.chance(1, 3) { 9 } else { 5 };
            let n = rng.range(0, 8) as usize;
            let sq: Vec<(u32, u32)> = (0..n).map(|_| (rng.below(d) as u32, rng.below(d) as u32)).collect();
            no += 1;
            let r = if rng.chance(1, 2) { "h" } else { "b" };
            run_case(&reg, &mut rec, mode, no, "ty=uf rnd", &[format!("ufatomize {r} {}", show(&sq))]);
        }
    }
    // Point<u32, ()>: all pairs over {0,1,2} (merge / partial_cmp panic unless the values are equal)
    if mode != Mode::C06 {
        let mut ls = vec![];
        for a in 0..3 {
            for b in 0..3 {
                ls.push(format!("merge pt pt {a} {b}"));
                ls.push(format!("cmp pt pt {a} {b}"));
                ls.push(format!("eq pt pt {a} {b}"));
            }
            ls.push(format!("isbot pt {a}"));
            ls.push(format!("istop pt {a}"));
            ls.push(format!("from pt pt {a}"));
        }
        ls.push("default pt".to_string());
        no += 1;
        run_case(&reg, &mut rec, mode, no, "ty=pt pool", &ls);
    }
    // part 2: seeded random cases, cycling through all types and pairs
    let nt = reg.types.len() as u64;
    let np = reg.pairs.len() as u64;
    for i in 0..args.cases {
        let mut rng = root.fork(i);
        let big = thorough && rng.chance(1, 2) || rng.chance(1, 6);
        no += 1;
        let slot = i % (nt + np);
        if slot < nt || mode == Mode::C06 {
            let mut t = &reg.types[(slot % nt) as usize];
            if mode == Mode::C06 {
                let at: Vec<&TypeInfo> = reg.types.iter().filter(|t| t.atomizable).collect();
                t = at[(i % at.len() as u64) as usize];
            }
            let a = (t.generate)(&mut rng, big);
            // related values are more interesting than independent ones: sometimes reuse
            let b = if rng.chance(1, 6) { a.clone() } else { (t.generate)(&mut rng, big) };
            let c = if rng.chance(1, 8) { b.clone() } else { (t.generate)(&mut rng, big) };
            let ls = lines_for_triple(mode, t, &a, &b, &c);
            run_case(&reg, &mut rec, mode, no, &format!("ty={} rnd", t.desc), &ls);
        } else {
            let p = &reg.pairs[(slot - nt) as usize];
            let mut ls = vec![];
            for _ in 0..3 {
                let a = (p.gen_a)(&mut rng, big);
                let b = (p.gen_b)(&mut rng, big);
                ls.extend(lines_for_pair(mode, p, &a, &b));
            }
            run_case(&reg, &mut rec, mode, no, &format!("ty={}|{} rnd", p.a, p.b), &ls);
        }
    }
    // part 3: malformed stream (oracle off): bad syntax, wrong arities, duplicate entries in
    // list-backed representations
    no += 1;
    let bad: Vec<String> = [
        "merge nope nope 1 2",
        "merge set.h set.h {1,2 {3}",
        "merge set.h set.a {1} {1,2,3}",
        "merge mx8 mx8 300 1",
        "frobnicate set.h {1}",
        "merge set.h mx8 {1} 2",
        "isbot set.h",
        "merge set.h set.v {1} {2,2,3,3}",
        "cmp set.v set.h {1,1} {1}",
        "cmp set.v set.h {1,1} {1,2}",
        "eq set.v set.v {1,1} {1,2}",
        "merge map.h(mx8) map.v(mx8) [1:1] [2:1,2:3,1:0]",
        "merge map.h(set.h) map.v(set.v) [1:{1}] [2:{1,1},2:{3},3:{}]",
        "cmp map.v(mx8) map.h(mx8) [1:1,1:2] [1:2]",
        "from set.h set.v {3,3,1}",
        "from map.h(mx8) map.v(mx8) [1:1,1:2]",
        "merge set.h set.h {1,1,2} {2,2}",
        "default cf",
        "default wt(cf)",
        "atomize mx8 3",
        "ufatomize h 1-2,x",
        "ufatomize q 1-2",
        "merge pt pt 1 2",
        "merge pt pt 2 2",
        "cmp pt pt 1 2",
    ]
    .iter()
    .map(|s| s.to_string())
    .collect();
    run_case(&reg, &mut rec, mode, no, "malformed", &bad);
    rec.finish(&args.out);
}
