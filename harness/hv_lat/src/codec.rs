//! Text codec, independent bottom/top specification, deterministic pools and generators for the
//! concrete `lattices` types the harness instantiates.
use hv_common::Rng;
use lattices::collections::{
    ArrayMap, ArraySet, OptionMap, OptionSet, SingletonMap, SingletonSet, VecMap, VecSet,
};
use lattices::map_union::MapUnion;
use lattices::set_union::SetUnion;
use lattices::{Conflict, DomPair, Max, Min, Pair, VecUnion, WithBot, WithTop};
use std::collections::{BTreeMap, BTreeSet, HashMap, HashSet};

pub struct Ps<'a> {
    pub s: &'a [u8],
    pub i: usize,
}
impl<'a> Ps<'a> {
    pub fn new(s: &'a str) -> Self {
        Ps { s: s.as_bytes(), i: 0 }
    }
    pub fn peek(&self) -> Option<u8> {
        self.s.get(self.i).copied()
    }
    pub fn eat(&mut self, c: u8) -> Option<()> {
        if self.peek() == Some(c) {
            self.i += 1;
            Some(())
        } else {
            None
        }
    }
    pub fn num(&mut self) -> Option<u64> {
        let st = self.i;
        while self.peek().is_some_and(|c| c.is_ascii_digit()) {
            self.i += 1;
        }
        if st == self.i || self.i - st > 12 {
            return None;
        }
        std::str::from_utf8(&self.s[st..self.i]).ok()?.parse().ok()
    }
    pub fn inum(&mut self) -> Option<i64> {
        let neg = self.eat(b'-').is_some();
        let n = self.num()? as i64;
        Some(if neg { -n } else { n })
    }
    /// up to 40 digits (u128 / i128 leaves)
    pub fn bignum(&mut self) -> Option<u128> {
        let st = self.i;
        while self.peek().is_some_and(|c| c.is_ascii_digit()) {
            self.i += 1;
        }
        if st == self.i || self.i - st > 40 {
            return None;
        }
        std::str::from_utf8(&self.s[st..self.i]).ok()?.parse().ok()
    }
    /// signed; the magnitude may be 2^127 (i128::MIN)
    pub fn ibignum(&mut self) -> Option<i128> {
        let neg = self.eat(b'-').is_some();
        let n = self.bignum()?;
        if neg {
            if n == 1u128 << 127 { Some(i128::MIN) } else { i128::try_from(n).ok().map(|x| -x) }
        } else {
            i128::try_from(n).ok()
        }
    }
    pub fn done(&self) -> bool {
        self.i == self.s.len()
    }
    /// items separated by `,` up to `close` (consumed)
    pub fn sep<T>(&mut self, close: u8, mut f: impl FnMut(&mut Ps<'a>) -> Option<T>) -> Option<Vec<T>> {
        let mut v = vec![];
        if self.eat(close).is_some() {
            return Some(v);
        }
        loop {
            v.push(f(self)?);
            if self.eat(close).is_some() {
                return Some(v);
            }
            self.eat(b',')?;
        }
    }
}

pub trait Codec: Sized + Clone + 'static {
    fn desc() -> String;
    /// top-level constructor, used in oracle signatures
    fn kind() -> &'static str;
    fn parse(p: &mut Ps) -> Option<Self>;
    fn show(&self) -> String;
    /// independent specification of "is the least element"
    fn spec_bot(&self) -> bool;
    /// independent specification of "is a greatest element"
    fn spec_top(&self) -> bool;
    /// deterministic small pool (<= 6 values), extremes first
    fn pool() -> Vec<Self>;
    fn generate(rng: &mut Rng, big: bool) -> Self;
}

pub fn parse_full<T: Codec>(s: &str) -> Option<T> {
    let mut p = Ps::new(s);
    let v = T::parse(&mut p)?;
    if p.done() { Some(v) } else { None }
}

fn opt_show<T>(o: Option<&T>, f: impl Fn(&T) -> String) -> String {
    match o {
        None => "N".into(),
        Some(x) => format!("S{}", f(x)),
    }
}
fn opt_parse<T>(p: &mut Ps, f: impl Fn(&mut Ps) -> Option<T>) -> Option<Option<T>> {
    if p.eat(b'N').is_some() {
        Some(None)
    } else {
        p.eat(b'S')?;
        Some(Some(f(p)?))
    }
}

// ---------------------------------------------------------------- numeric / bool leaves
macro_rules! num_leaf {
    ($w:ident, $t:ty, $d:expr, $bot:expr, $top:expr) => {
        impl Codec for $w<$t> {
            fn desc() -> String {
                $d.into()
            }
            fn kind() -> &'static str {
                stringify!($w)
            }
            fn parse(p: &mut Ps) -> Option<Self> {
                let n = p.num()?;
                <$t>::try_from(n).ok().map($w::new)
            }
            fn show(&self) -> String {
                self.as_reveal_ref().to_string()
            }
            fn spec_bot(&self) -> bool {
                *self.as_reveal_ref() == $bot
            }
            fn spec_top(&self) -> bool {
                *self.as_reveal_ref() == $top
            }
            fn pool() -> Vec<Self> {
                vec![$w::new(<$t>::MIN), $w::new(<$t>::MAX), $w::new(1), $w::new(2)]
            }
            fn generate(rng: &mut Rng, big: bool) -> Self {
                let c: [$t; 6] = [0, 1, 2, 3, <$t>::MAX - 1, <$t>::MAX];
                if big && rng.chance(1, 3) {
                    $w::new(rng.below(<$t>::MAX as u64 + 1) as $t)
                } else {
                    $w::new(*rng.pick(&c))
                }
            }
        }
    };
}
num_leaf!(Max, u8, "mx8", u8::MIN, u8::MAX);
num_leaf!(Min, u8, "mn8", u8::MAX, u8::MIN);
num_leaf!(Max, u32, "mx32", u32::MIN, u32::MAX);
num_leaf!(Min, u32, "mn32", u32::MAX, u32::MIN);

macro_rules! int_leaf {
    ($w:ident, $t:ty, $d:expr, $bot:expr, $top:expr) => {
        impl Codec for $w<$t> {
            fn desc() -> String {
                $d.into()
            }
            fn kind() -> &'static str {
                stringify!($w)
            }
            fn parse(p: &mut Ps) -> Option<Self> {
                let n = p.inum()?;
                <$t>::try_from(n).ok().map($w::new)
            }
            fn show(&self) -> String {
                self.as_reveal_ref().to_string()
            }
            fn spec_bot(&self) -> bool {
                *self.as_reveal_ref() == $bot
            }
            fn spec_top(&self) -> bool {
                *self.as_reveal_ref() == $top
            }
            fn pool() -> Vec<Self> {
                vec![$w::new(<$t>::MIN), $w::new(<$t>::MAX), $w::new(0), $w::new(-1)]
            }
            fn generate(rng: &mut Rng, big: bool) -> Self {
                let c: [$t; 7] = [<$t>::MIN, <$t>::MIN + 1, -1, 0, 1, <$t>::MAX - 1, <$t>::MAX];
                if big && rng.chance(1, 3) {
                    $w::new((rng.next_u64() as i64 % (<$t>::MAX as i64 + 1)) as $t)
                } else {
                    $w::new(*rng.pick(&c))
                }
            }
        }
    };
}
int_leaf!(Max, i8, "mxi8", i8::MIN, i8::MAX);
int_leaf!(Min, i8, "mni8", i8::MAX, i8::MIN);
int_leaf!(Max, i32, "mxi32", i32::MIN, i32::MAX);
int_leaf!(Min, i32, "mni32", i32::MAX, i32::MIN);

/// the remaining instantiations of `impls_numeric!` in ord.rs (16/64/128-bit, usize/isize): same macro
/// body as the 8/32-bit ones, registered so that every type of the list is exercised at its own extremes
macro_rules! wide_leaf {
    ($w:ident, $t:ty, $d:expr, $bot:expr, $top:expr, $parse:ident, $small:expr) => {
        impl Codec for $w<$t> {
            fn desc() -> String {
                $d.into()
            }
            fn kind() -> &'static str {
                stringify!($w)
            }
            fn parse(p: &mut Ps) -> Option<Self> {
                let n = p.$parse()?;
                <$t>::try_from(n).ok().map($w::new)
            }
            fn show(&self) -> String {
                self.as_reveal_ref().to_string()
            }
            fn spec_bot(&self) -> bool {
                *self.as_reveal_ref() == $bot
            }
            fn spec_top(&self) -> bool {
                *self.as_reveal_ref() == $top
            }
            fn pool() -> Vec<Self> {
                let s: [$t; 2] = $small;
                vec![$w::new(<$t>::MIN), $w::new(<$t>::MAX), $w::new(s[0]), $w::new(s[1])]
            }
            fn generate(rng: &mut Rng, big: bool) -> Self {
                let s: [$t; 2] = $small;
                let c: [$t; 6] = [<$t>::MIN, <$t>::MIN + 1, s[0], s[1], <$t>::MAX - 1, <$t>::MAX];
                if big && rng.chance(1, 3) {
                    $w::new((((rng.next_u64() as u128) << 64) | rng.next_u64() as u128) as $t)
                } else {
                    $w::new(*rng.pick(&c))
                }
            }
        }
    };
}
wide_leaf!(Max, u16, "mx16", u16::MIN, u16::MAX, bignum, [1, 2]);
wide_leaf!(Min, u16, "mn16", u16::MAX, u16::MIN, bignum, [1, 2]);
wide_leaf!(Max, u64, "mx64", u64::MIN, u64::MAX, bignum, [1, 2]);
wide_leaf!(Min, u64, "mn64", u64::MAX, u64::MIN, bignum, [1, 2]);
wide_leaf!(Max, u128, "mx128", u128::MIN, u128::MAX, bignum, [1, 2]);
wide_leaf!(Min, u128, "mn128", u128::MAX, u128::MIN, bignum, [1, 2]);
wide_leaf!(Max, usize, "mxz", usize::MIN, usize::MAX, bignum, [1, 2]);
wide_leaf!(Min, usize, "mnz", usize::MAX, usize::MIN, bignum, [1, 2]);
wide_leaf!(Max, i16, "mxi16", i16::MIN, i16::MAX, ibignum, [-1, 0]);
wide_leaf!(Min, i16, "mni16", i16::MAX, i16::MIN, ibignum, [-1, 0]);
wide_leaf!(Max, i64, "mxi64", i64::MIN, i64::MAX, ibignum, [-1, 0]);
wide_leaf!(Min, i64, "mni64", i64::MAX, i64::MIN, ibignum, [-1, 0]);
wide_leaf!(Max, i128, "mxi128", i128::MIN, i128::MAX, ibignum, [-1, 0]);
wide_leaf!(Min, i128, "mni128", i128::MAX, i128::MIN, ibignum, [-1, 0]);
wide_leaf!(Max, isize, "mxiz", isize::MIN, isize::MAX, ibignum, [-1, 0]);
wide_leaf!(Min, isize, "mniz", isize::MAX, isize::MIN, ibignum, [-1, 0]);

/// `Max<char>` / `Min<char>` (hand-written impls in ord.rs); values are printed as code points
macro_rules! char_leaf {
    ($w:ident, $d:expr, $bot:expr, $top:expr) => {
        impl Codec for $w<char> {
            fn desc() -> String {
                $d.into()
            }
            fn kind() -> &'static str {
                stringify!($w)
            }
            fn parse(p: &mut Ps) -> Option<Self> {
                let n = p.num()?;
                u32::try_from(n).ok().and_then(char::from_u32).map($w::new)
            }
            fn show(&self) -> String {
                (*self.as_reveal_ref() as u32).to_string()
            }
            fn spec_bot(&self) -> bool {
                *self.as_reveal_ref() as u32 == $bot
            }
            fn spec_top(&self) -> bool {
                *self.as_reveal_ref() as u32 == $top
            }
            fn pool() -> Vec<Self> {
                vec![$w::new('\0'), $w::new(char::MAX), $w::new('a'), $w::new('\u{D7FF}'), $w::new('\u{E000}')]
            }
            fn generate(rng: &mut Rng, big: bool) -> Self {
                let c = ['\0', '\u{1}', 'a', 'b', '\u{D7FF}', '\u{E000}', '\u{10FFFE}', char::MAX];
                if big && rng.chance(1, 3) {
                    loop {
                        if let Some(x) = char::from_u32(rng.below(0x110000) as u32) {
                            return $w::new(x);
                        }
                    }
                } else {
                    $w::new(*rng.pick(&c))
                }
            }
        }
    };
}
char_leaf!(Max, "mxc", 0u32, 0x10FFFFu32);
char_leaf!(Min, "mnc", 0x10FFFFu32, 0u32);

macro_rules! bool_leaf {
    ($w:ident, $d:expr, $bot:expr) => {
        impl Codec for $w<bool> {
            fn desc() -> String {
                $d.into()
            }
            fn kind() -> &'static str {
                stringify!($w)
            }
            fn parse(p: &mut Ps) -> Option<Self> {
                if p.eat(b't').is_some() {
                    Some($w::new(true))
                } else {
                    p.eat(b'f')?;
                    Some($w::new(false))
                }
            }
            fn show(&self) -> String {
                if *self.as_reveal_ref() { "t".into() } else { "f".into() }
            }
            fn spec_bot(&self) -> bool {
                *self.as_reveal_ref() == $bot
            }
            fn spec_top(&self) -> bool {
                *self.as_reveal_ref() != $bot
            }
            fn pool() -> Vec<Self> {
                vec![$w::new(false), $w::new(true)]
            }
            fn generate(rng: &mut Rng, _big: bool) -> Self {
                $w::new(rng.chance(1, 2))
            }
        }
    };
}
bool_leaf!(Max, "mxb", false);
bool_leaf!(Min, "mnb", true);

impl Codec for () {
    fn desc() -> String {
        "un".into()
    }
    fn kind() -> &'static str {
        "Unit"
    }
    fn parse(p: &mut Ps) -> Option<Self> {
        p.eat(b'u')
    }
    fn show(&self) -> String {
        "u".into()
    }
    fn spec_bot(&self) -> bool {
        true
    }
    fn spec_top(&self) -> bool {
        true
    }
    fn pool() -> Vec<Self> {
        vec![()]
    }
    fn generate(_rng: &mut Rng, _big: bool) -> Self {}
}

impl Codec for Conflict<u32> {
    fn desc() -> String {
        "cf".into()
    }
    fn kind() -> &'static str {
        "Conflict"
    }
    fn parse(p: &mut Ps) -> Option<Self> {
        opt_parse(p, |p| p.num().and_then(|n| u32::try_from(n).ok())).map(Conflict::new)
    }
    fn show(&self) -> String {
        opt_show(self.as_reveal_ref(), |x| x.to_string())
    }
    fn spec_bot(&self) -> bool {
        false
    }
    fn spec_top(&self) -> bool {
        self.as_reveal_ref().is_none()
    }
    fn pool() -> Vec<Self> {
        vec![Conflict::new(None), Conflict::new(Some(0)), Conflict::new(Some(1))]
    }
    fn generate(rng: &mut Rng, _big: bool) -> Self {
        if rng.chance(1, 4) { Conflict::new(None) } else { Conflict::new(Some(rng.below(3) as u32)) }
    }
}

// ---------------------------------------------------------------- set backings
pub trait SetB: Sized + Clone + 'static {
    const R: char;
    /// (min, max) number of elements this backing can hold
    const ARITY: (usize, usize);
    fn from_vec(v: Vec<u32>) -> Option<Self>;
    fn to_vec(&self) -> Vec<u32>;
}
impl SetB for HashSet<u32> {
    const R: char = 'h';
    const ARITY: (usize, usize) = (0, 6);
    fn from_vec(v: Vec<u32>) -> Option<Self> {
        Some(v.into_iter().collect())
    }
    fn to_vec(&self) -> Vec<u32> {
        self.iter().copied().collect()
    }
}
impl SetB for BTreeSet<u32> {
    const R: char = 'b';
    const ARITY: (usize, usize) = (0, 6);
    fn from_vec(v: Vec<u32>) -> Option<Self> {
        Some(v.into_iter().collect())
    }
    fn to_vec(&self) -> Vec<u32> {
        self.iter().copied().collect()
    }
}
impl SetB for VecSet<u32> {
    const R: char = 'v';
    const ARITY: (usize, usize) = (0, 6);
    fn from_vec(v: Vec<u32>) -> Option<Self> {
        Some(VecSet(v))
    }
    fn to_vec(&self) -> Vec<u32> {
        self.0.clone()
    }
}
impl SetB for ArraySet<u32, 2> {
    const R: char = 'a';
    const ARITY: (usize, usize) = (2, 2);
    fn from_vec(v: Vec<u32>) -> Option<Self> {
        <[u32; 2]>::try_from(v).ok().map(ArraySet)
    }
    fn to_vec(&self) -> Vec<u32> {
        self.0.to_vec()
    }
}
impl SetB for OptionSet<u32> {
    const R: char = 'o';
    const ARITY: (usize, usize) = (0, 1);
    fn from_vec(v: Vec<u32>) -> Option<Self> {
        match v.len() {
            0 => Some(OptionSet(None)),
            1 => Some(OptionSet(Some(v[0]))),
            _ => None,
        }
    }
    fn to_vec(&self) -> Vec<u32> {
        self.0.into_iter().collect()
    }
}
impl SetB for SingletonSet<u32> {
    const R: char = 's';
    const ARITY: (usize, usize) = (1, 1);
    fn from_vec(v: Vec<u32>) -> Option<Self> {
        if v.len() == 1 { Some(SingletonSet(v[0])) } else { None }
    }
    fn to_vec(&self) -> Vec<u32> {
        vec![self.0]
    }
}

/// `n` distinct keys from a small domain
fn distinct(rng: &mut Rng, n: usize, big: bool) -> Vec<u32> {
    let dom = if big { 10 } else { 4 };
    let mut v: Vec<u32> = vec![];
    while v.len() < n {
        let x = rng.below(dom) as u32;
        if !v.contains(&x) {
            v.push(x);
        }
    }
    v
}
fn pick_len(rng: &mut Rng, ar: (usize, usize), big: bool) -> usize {
    let hi = ar.1.min(if big { 6 } else { 3 });
    rng.range(ar.0 as u64, hi as u64) as usize
}

impl<S: SetB> Codec for SetUnion<S> {
    fn desc() -> String {
        format!("set.{}", S::R)
    }
    fn kind() -> &'static str {
        "SetUnion"
    }
    fn parse(p: &mut Ps) -> Option<Self> {
        p.eat(b'{')?;
        let v = p.sep(b'}', |p| p.num().and_then(|n| u32::try_from(n).ok()))?;
        S::from_vec(v).map(SetUnion::new)
    }
    fn show(&self) -> String {
        let mut v = self.as_reveal_ref().to_vec();
        v.sort();
        format!("{{{}}}", v.iter().map(|x| x.to_string()).collect::<Vec<_>>().join(","))
    }
    fn spec_bot(&self) -> bool {
        self.as_reveal_ref().to_vec().is_empty()
    }
    fn spec_top(&self) -> bool {
        false
    }
    fn pool() -> Vec<Self> {
        let all: [&[u32]; 6] = [&[], &[0], &[1], &[0, 1], &[2], &[1, 2]];
        all.iter().filter_map(|v| S::from_vec(v.to_vec())).map(SetUnion::new).collect()
    }
    fn generate(rng: &mut Rng, big: bool) -> Self {
        let n = pick_len(rng, S::ARITY, big);
        SetUnion::new(S::from_vec(distinct(rng, n, big)).unwrap())
    }
}

// ---------------------------------------------------------------- map backings
pub trait MapB: Sized + Clone + 'static {
    type V: Codec;
    const R: char;
    const ARITY: (usize, usize);
    fn from_vec(v: Vec<(u32, Self::V)>) -> Option<Self>;
    fn to_vec(&self) -> Vec<(u32, Self::V)>;
}
impl<V: Codec> MapB for HashMap<u32, V> {
    type V = V;
    const R: char = 'h';
    const ARITY: (usize, usize) = (0, 6);
    fn from_vec(v: Vec<(u32, V)>) -> Option<Self> {
        Some(v.into_iter().collect())
    }
    fn to_vec(&self) -> Vec<(u32, V)> {
        self.iter().map(|(k, v)| (*k, v.clone())).collect()
    }
}
impl<V: Codec> MapB for BTreeMap<u32, V> {
    type V = V;
    const R: char = 'b';
    const ARITY: (usize, usize) = (0, 6);
    fn from_vec(v: Vec<(u32, V)>) -> Option<Self> {
        Some(v.into_iter().collect())
    }
    fn to_vec(&self) -> Vec<(u32, V)> {
        self.iter().map(|(k, v)| (*k, v.clone())).collect()
    }
}
impl<V: Codec> MapB for VecMap<u32, V> {
    type V = V;
    const R: char = 'v';
    const ARITY: (usize, usize) = (0, 6);
    fn from_vec(v: Vec<(u32, V)>) -> Option<Self> {
        let (k, x): (Vec<_>, Vec<_>) = v.into_iter().unzip();
        Some(VecMap::new(k, x))
    }
    fn to_vec(&self) -> Vec<(u32, V)> {
        self.keys.iter().copied().zip(self.vals.iter().cloned()).collect()
    }
}
impl<V: Codec> MapB for ArrayMap<u32, V, 2> {
    type V = V;
    const R: char = 'a';
    const ARITY: (usize, usize) = (2, 2);
    fn from_vec(v: Vec<(u32, V)>) -> Option<Self> {
        <[(u32, V); 2]>::try_from(v).ok().map(ArrayMap::from)
    }
    fn to_vec(&self) -> Vec<(u32, V)> {
        self.keys.iter().copied().zip(self.vals.iter().cloned()).collect()
    }
}
impl<V: Codec> MapB for OptionMap<u32, V> {
    type V = V;
    const R: char = 'o';
    const ARITY: (usize, usize) = (0, 1);
    fn from_vec(mut v: Vec<(u32, V)>) -> Option<Self> {
        match v.len() {
            0 => Some(OptionMap(None)),
            1 => Some(OptionMap(v.pop())),
            _ => None,
        }
    }
    fn to_vec(&self) -> Vec<(u32, V)> {
        self.0.clone().into_iter().collect()
    }
}
impl<V: Codec> MapB for SingletonMap<u32, V> {
    type V = V;
    const R: char = 's';
    const ARITY: (usize, usize) = (1, 1);
    fn from_vec(mut v: Vec<(u32, V)>) -> Option<Self> {
        if v.len() == 1 {
            let (k, x) = v.pop().unwrap();
            Some(SingletonMap(k, x))
        } else {
            None
        }
    }
    fn to_vec(&self) -> Vec<(u32, V)> {
        vec![(self.0, self.1.clone())]
    }
}

impl<M: MapB> Codec for MapUnion<M> {
    fn desc() -> String {
        format!("map.{}({})", M::R, M::V::desc())
    }
    fn kind() -> &'static str {
        "MapUnion"
    }
    fn parse(p: &mut Ps) -> Option<Self> {
        p.eat(b'[')?;
        let v = p.sep(b']', |p| {
            let k = p.num().and_then(|n| u32::try_from(n).ok())?;
            p.eat(b':')?;
            Some((k, M::V::parse(p)?))
        })?;
        M::from_vec(v).map(MapUnion::new)
    }
    fn show(&self) -> String {
        let mut v = self.as_reveal_ref().to_vec();
        v.sort_by_key(|e| e.0); // stable
        format!("[{}]", v.iter().map(|(k, x)| format!("{k}:{}", x.show())).collect::<Vec<_>>().join(","))
    }
    fn spec_bot(&self) -> bool {
        self.as_reveal_ref().to_vec().iter().all(|(_, x)| x.spec_bot())
    }
    fn spec_top(&self) -> bool {
        false
    }
    fn pool() -> Vec<Self> {
        let vp = M::V::pool();
        let v0 = vp[0].clone();
        let v1 = vp[vp.len().min(2) - 1].clone();
        let v2 = vp[vp.len() - 1].clone();
        let all: Vec<Vec<(u32, M::V)>> = vec![
            vec![],
            vec![(0, v0.clone())],
            vec![(0, v1.clone())],
            vec![(1, v2.clone())],
            vec![(0, v1.clone()), (1, v0.clone())],
            vec![(0, v2.clone()), (1, v1.clone())],
        ];
        all.into_iter().filter_map(M::from_vec).map(MapUnion::new).collect()
    }
    fn generate(rng: &mut Rng, big: bool) -> Self {
        let n = pick_len(rng, M::ARITY, big);
        let ks = distinct(rng, n, big);
        let v = ks.into_iter().map(|k| (k, M::V::generate(rng, big))).collect();
        MapUnion::new(M::from_vec(v).unwrap())
    }
}

// ---------------------------------------------------------------- wrappers
impl<T: Codec> Codec for WithBot<T> {
    fn desc() -> String {
        format!("wb({})", T::desc())
    }
    fn kind() -> &'static str {
        "WithBot"
    }
    fn parse(p: &mut Ps) -> Option<Self> {
        opt_parse(p, T::parse).map(WithBot::new)
    }
    fn show(&self) -> String {
        opt_show(self.as_reveal_ref(), T::show)
    }
    fn spec_bot(&self) -> bool {
        self.as_reveal_ref().is_none_or(|x| x.spec_bot())
    }
    fn spec_top(&self) -> bool {
        self.as_reveal_ref().is_some_and(|x| x.spec_top())
    }
    fn pool() -> Vec<Self> {
        let mut v = vec![WithBot::new(None)];
        v.extend(T::pool().into_iter().take(5).map(|x| WithBot::new(Some(x))));
        v
    }
    fn generate(rng: &mut Rng, big: bool) -> Self {
        if rng.chance(1, 4) { WithBot::new(None) } else { WithBot::new(Some(T::generate(rng, big))) }
    }
}
impl<T: Codec> Codec for WithTop<T> {
    fn desc() -> String {
        format!("wt({})", T::desc())
    }
    fn kind() -> &'static str {
        "WithTop"
    }
    fn parse(p: &mut Ps) -> Option<Self> {
        opt_parse(p, T::parse).map(WithTop::new)
    }
    fn show(&self) -> String {
        opt_show(self.as_reveal_ref(), T::show)
    }
    fn spec_bot(&self) -> bool {
        self.as_reveal_ref().is_some_and(|x| x.spec_bot())
    }
    fn spec_top(&self) -> bool {
        // `None` is strictly above every `Some(_)`: it is the only greatest element
        self.as_reveal_ref().is_none()
    }
    fn pool() -> Vec<Self> {
        let mut v = vec![WithTop::new(None)];
        v.extend(T::pool().into_iter().take(5).map(|x| WithTop::new(Some(x))));
        v
    }
    fn generate(rng: &mut Rng, big: bool) -> Self {
        if rng.chance(1, 4) { WithTop::new(None) } else { WithTop::new(Some(T::generate(rng, big))) }
    }
}

fn pair_pool<A: Codec, B: Codec>() -> Vec<(A, B)> {
    let pa: Vec<A> = A::pool().into_iter().take(3).collect();
    let pb: Vec<B> = B::pool().into_iter().take(2).collect();
    let mut v = vec![];
    for a in &pa {
        for b in &pb {
            v.push((a.clone(), b.clone()));
        }
    }
    v.truncate(6);
    v
}

impl<A: Codec, B: Codec> Codec for Pair<A, B> {
    fn desc() -> String {
        format!("pr({},{})", A::desc(), B::desc())
    }
    fn kind() -> &'static str {
        "Pair"
    }
    fn parse(p: &mut Ps) -> Option<Self> {
        p.eat(b'(')?;
        let a = A::parse(p)?;
        p.eat(b',')?;
        let b = B::parse(p)?;
        p.eat(b')')?;
        Some(Pair::new(a, b))
    }
    fn show(&self) -> String {
        format!("({},{})", self.a.show(), self.b.show())
    }
    fn spec_bot(&self) -> bool {
        self.a.spec_bot() && self.b.spec_bot()
    }
    fn spec_top(&self) -> bool {
        self.a.spec_top() && self.b.spec_top()
    }
    fn pool() -> Vec<Self> {
        pair_pool::<A, B>().into_iter().map(|(a, b)| Pair::new(a, b)).collect()
    }
    fn generate(rng: &mut Rng, big: bool) -> Self {
        Pair::new(A::generate(rng, big), B::generate(rng, big))
    }
}
impl<A: Codec, B: Codec> Codec for DomPair<A, B> {
    fn desc() -> String {
        format!("dp({},{})", A::desc(), B::desc())
    }
    fn kind() -> &'static str {
        "DomPair"
    }
    fn parse(p: &mut Ps) -> Option<Self> {
        p.eat(b'(')?;
        let a = A::parse(p)?;
        p.eat(b',')?;
        let b = B::parse(p)?;
        p.eat(b')')?;
        Some(DomPair::new(a, b))
    }
    fn show(&self) -> String {
        let (k, v) = self.as_reveal_ref();
        format!("({},{})", k.show(), v.show())
    }
    fn spec_bot(&self) -> bool {
        let (k, v) = self.as_reveal_ref();
        k.spec_bot() && v.spec_bot()
    }
    fn spec_top(&self) -> bool {
        let (k, v) = self.as_reveal_ref();
        k.spec_top() && v.spec_top()
    }
    fn pool() -> Vec<Self> {
        pair_pool::<A, B>().into_iter().map(|(a, b)| DomPair::new(a, b)).collect()
    }
    fn generate(rng: &mut Rng, big: bool) -> Self {
        DomPair::new(A::generate(rng, big), B::generate(rng, big))
    }
}
impl<T: Codec> Codec for VecUnion<T> {
    fn desc() -> String {
        format!("vu({})", T::desc())
    }
    fn kind() -> &'static str {
        "VecUnion"
    }
    fn parse(p: &mut Ps) -> Option<Self> {
        p.eat(b'<')?;
        p.sep(b'>', T::parse).map(VecUnion::new)
    }
    fn show(&self) -> String {
        format!("<{}>", self.as_reveal_ref().iter().map(T::show).collect::<Vec<_>>().join(","))
    }
    fn spec_bot(&self) -> bool {
        self.as_reveal_ref().is_empty()
    }
    fn spec_top(&self) -> bool {
        false
    }
    fn pool() -> Vec<Self> {
        let tp = T::pool();
        let p0 = tp[0].clone();
        let p1 = tp[tp.len() - 1].clone();
        vec![
            VecUnion::new(vec![]),
            VecUnion::new(vec![p0.clone()]),
            VecUnion::new(vec![p1.clone()]),
            VecUnion::new(vec![p0.clone(), p1.clone()]),
            VecUnion::new(vec![p1.clone(), p0.clone()]),
            VecUnion::new(vec![p0.clone(), p0.clone(), p0]),
        ]
    }
    fn generate(rng: &mut Rng, big: bool) -> Self {
        let n = rng.range(0, if big { 5 } else { 3 }) as usize;
        VecUnion::new((0..n).map(|_| T::generate(rng, big)).collect())
    }
}

/// A user-defined struct deriving the lattice traits through `lattices_macro` (three fields).
#[derive(Clone, Debug, Default, lattices::Lattice)]
pub struct Tri<A, B, C> {
    pub a: A,
    pub b: B,
    pub c: C,
}
impl<A: Codec, B: Codec, C: Codec> Codec for Tri<A, B, C> {
    fn desc() -> String {
        format!("tr({},{},{})", A::desc(), B::desc(), C::desc())
    }
    fn kind() -> &'static str {
        "Derived"
    }
    fn parse(p: &mut Ps) -> Option<Self> {
        p.eat(b'(')?;
        let a = A::parse(p)?;
        p.eat(b',')?;
        let b = B::parse(p)?;
        p.eat(b',')?;
        let c = C::parse(p)?;
        p.eat(b')')?;
        Some(Tri { a, b, c })
    }
    fn show(&self) -> String {
        format!("({},{},{})", self.a.show(), self.b.show(), self.c.show())
    }
    fn spec_bot(&self) -> bool {
        self.a.spec_bot() && self.b.spec_bot() && self.c.spec_bot()
    }
    fn spec_top(&self) -> bool {
        self.a.spec_top() && self.b.spec_top() && self.c.spec_top()
    }
    fn pool() -> Vec<Self> {
        let pa: Vec<A> = A::pool().into_iter().take(2).collect();
        let pb: Vec<B> = B::pool().into_iter().take(2).collect();
        let pc: Vec<C> = C::pool().into_iter().take(2).collect();
        let mut v = vec![];
        for (i, a) in pa.iter().enumerate() {
            for (j, b) in pb.iter().enumerate() {
                for (k, c) in pc.iter().enumerate() {
                    if (i + j + k) % 2 == 0 || i + j + k == 3 {
                        v.push(Tri { a: a.clone(), b: b.clone(), c: c.clone() });
                    }
                }
            }
        }
        v.truncate(6);
        v
    }
    fn generate(rng: &mut Rng, big: bool) -> Self {
        Tri { a: A::generate(rng, big), b: B::generate(rng, big), c: C::generate(rng, big) }
    }
}
