//! C17 harness: drives the real `dfir_lang::graph::graph_algorithms::{topo_sort,
//! validate_topo_sort, SubgraphMerge}` and `dfir_lang::union_find::UnionFind` with generated
//! graphs / operation sequences, writes the transcript for the Lean driver `hvdrv_graphalg`
//! and evaluates the property clauses on the real code with independent Rust oracles.
//!
//! Line protocol: see `lean/HvGraphAlg/HvGraphAlg/Driver/Main.lean`.
use dfir_lang::graph::graph_algorithms::{SubgraphMerge, topo_sort, validate_topo_sort};
use dfir_lang::union_find::UnionFind;
use hv_common::{Args, Recorder, Rng, catch};
use slotmap::{DefaultKey, SlotMap};
use std::collections::{BTreeMap, BTreeSet};
use std::panic::AssertUnwindSafe;

type Adj = Vec<Vec<usize>>;

// ---------------------------------------------------------------- parsing / printing

fn parse_list(s: &str) -> Option<Vec<usize>> {
    if s == "-" { Some(vec![]) } else { s.split(',').map(|p| parse_nat(p)).collect() }
}
fn parse_nat(p: &str) -> Option<usize> {
    if p.is_empty() || !p.bytes().all(|b| b.is_ascii_digit()) || p.len() > 9 { None } else { p.parse().ok() }
}
fn parse_adj(s: &str) -> Option<Adj> {
    if s == "." { Some(vec![]) } else { s.split(';').map(parse_list).collect() }
}
fn parse_pairs(s: &str) -> Option<Vec<(usize, usize)>> {
    if s == "-" {
        return Some(vec![]);
    }
    s.split(';')
        .map(|p| {
            let v: Vec<&str> = p.split(':').collect();
            if v.len() == 2 { Some((parse_nat(v[0])?, parse_nat(v[1])?)) } else { None }
        })
        .collect()
}
fn show_l(l: &[usize]) -> String {
    if l.is_empty() { "-".into() } else { l.iter().map(|x| x.to_string()).collect::<Vec<_>>().join(",") }
}
fn show_adj(a: &Adj) -> String {
    if a.is_empty() { ".".into() } else { a.iter().map(|l| show_l(l)).collect::<Vec<_>>().join(";") }
}
fn show_pairs(p: &[(usize, usize)]) -> String {
    if p.is_empty() { "-".into() } else { p.iter().map(|(a, b)| format!("{a}:{b}")).collect::<Vec<_>>().join(";") }
}
fn show_groups(g: &[Vec<usize>]) -> String {
    if g.is_empty() { "-".into() } else { g.iter().map(|l| show_l(l)).collect::<Vec<_>>().join("|") }
}
fn adj_ok(a: &Adj) -> bool {
    a.iter().all(|ps| ps.iter().all(|&p| p < a.len()))
}

// ---------------------------------------------------------------- independent graph oracles

/// nodes reachable from `ids` through predecessor lists
fn reachable(ids: &[usize], adj: &Adj) -> BTreeSet<usize> {
    let mut seen = BTreeSet::new();
    let mut work: Vec<usize> = ids.to_vec();
    while let Some(x) = work.pop() {
        if seen.insert(x) {
            work.extend(adj[x].iter().copied());
        }
    }
    seen
}

/// Is the graph induced on `nodes` (closed under predecessors, or with edges leaving `nodes`
/// ignored) cyclic?  Peels nodes all of whose predecessors are already peeled.
fn cyclic_on(nodes: &BTreeSet<usize>, preds: &dyn Fn(usize) -> Vec<usize>) -> bool {
    let mut left: BTreeSet<usize> = nodes.clone();
    loop {
        let peel: Vec<usize> = left
            .iter()
            .copied()
            .filter(|&x| preds(x).iter().all(|p| !left.contains(p)))
            .collect();
        if peel.is_empty() {
            return !left.is_empty();
        }
        for x in peel {
            left.remove(&x);
        }
    }
}

/// `c` is a genuine cycle: non-empty, nodes distinct, consecutive edges, closes.
fn real_cycle(c: &[usize], adj: &Adj) -> bool {
    if c.is_empty() {
        return false;
    }
    let set: BTreeSet<usize> = c.iter().copied().collect();
    if set.len() != c.len() || c.iter().any(|&x| x >= adj.len()) {
        return false;
    }
    for i in 0..c.len() {
        let a = c[i];
        let b = c[(i + 1) % c.len()];
        if !adj[b].contains(&a) {
            return false;
        }
    }
    true
}

/// positions respect every edge (p before x for p in preds(x)); all preds present
fn respects_edges(order: &[usize], adj: &Adj, ignore_self: bool) -> bool {
    let pos: BTreeMap<usize, usize> = order.iter().enumerate().map(|(i, &x)| (x, i)).collect();
    for &x in order {
        for &p in &adj[x] {
            if ignore_self && p == x {
                continue;
            }
            match pos.get(&p) {
                Some(&pi) if pi < pos[&x] => {}
                _ => return false,
            }
        }
    }
    true
}

// ---------------------------------------------------------------- live objects

struct UfObj {
    keys: Vec<DefaultKey>,
    uf: UnionFind<DefaultKey>,
    /// independent partition: class label per key
    label: Vec<usize>,
}
struct SmObj {
    keys: Vec<DefaultKey>,
    sm: SubgraphMerge<DefaultKey>,
    adj: Adj,
    enemies: Vec<(usize, usize)>,
    /// independent partition, updated only when `try_merge` answers `true`
    label: Vec<usize>,
}
enum Obj {
    None,
    Uf(UfObj),
    Sm(Box<SmObj>),
}

fn make_keys(n: usize) -> Vec<DefaultKey> {
    let mut sm: SlotMap<DefaultKey, ()> = SlotMap::new();
    (0..n).map(|_| sm.insert(())).collect()
}
fn key_index(keys: &[DefaultKey], k: DefaultKey) -> usize {
    keys.iter().position(|&x| x == k).unwrap_or(usize::MAX)
}
fn relabel(label: &mut [usize], a: usize, b: usize) {
    let (la, lb) = (label[a], label[b]);
    for l in label.iter_mut() {
        if *l == lb {
            *l = la;
        }
    }
}

/// quotient graph over class labels (intra-class edges dropped) is cyclic?
fn quotient_cyclic(label: &[usize], adj: &Adj) -> bool {
    let classes: BTreeSet<usize> = label.iter().copied().collect();
    let preds = |c: usize| -> Vec<usize> {
        let mut v = vec![];
        for x in 0..label.len() {
            if label[x] == c {
                for &p in &adj[x] {
                    if label[p] != c {
                        v.push(label[p]);
                    }
                }
            }
        }
        v
    };
    cyclic_on(&classes, &preds)
}

impl SmObj {
    fn groups(&self) -> Option<Vec<Vec<usize>>> {
        let n = self.keys.len();
        let r = catch(AssertUnwindSafe(|| {
            self.sm.subgraphs().take(n + 2).map(|s| s.iter().map(|&k| key_index(&self.keys, k)).collect::<Vec<_>>()).collect::<Vec<_>>()
        }));
        match r {
            Ok(g) if g.len() <= n + 1 => Some(g),
            _ => None,
        }
    }

    /// The invariant clauses of the property, evaluated on the real object.
    fn check_inv(&mut self, rec: &mut Recorder, at: &str) {
        let n = self.keys.len();
        let Some(groups) = self.groups() else {
            rec.check(false, &format!("sm-unexpected-panic@subgraphs-{at}"), "");
            return;
        };
        let flat: Vec<usize> = groups.iter().flatten().copied().collect();
        let mut sorted = flat.clone();
        sorted.sort();
        rec.check(sorted == (0..n).collect::<Vec<_>>(), &format!("sm-order-not-perm@{at}"), &show_groups(&groups));
        if sorted != (0..n).collect::<Vec<_>>() {
            return;
        }
        // each slice is exactly one class of the independent partition
        let mut ok_class = true;
        for g in &groups {
            if g.is_empty() {
                ok_class = false;
                continue;
            }
            let l = self.label[g[0]];
            let members: BTreeSet<usize> = (0..n).filter(|&x| self.label[x] == l).collect();
            if members != g.iter().copied().collect::<BTreeSet<_>>() {
                ok_class = false;
            }
        }
        rec.check(ok_class, &format!("sm-group-not-class@{at}"), &format!("groups={} labels={}", show_groups(&groups), show_l(&self.label)));
        // union-find answers connectivity
        let mut ok_same = true;
        let mut ok_rep = true;
        if n <= 8 {
            for a in 0..n {
                for b in 0..n {
                    let r = self.sm.same_set(self.keys[a], self.keys[b]);
                    if r != (self.label[a] == self.label[b]) {
                        ok_same = false;
                    }
                }
            }
        }
        for g in &groups {
            for &x in g {
                let r = key_index(&self.keys, self.sm.find(self.keys[x]));
                if r != g[0] {
                    ok_rep = false;
                }
            }
        }
        rec.check(ok_same, &format!("sm-same-set-wrong@{at}"), &show_groups(&groups));
        rec.check(ok_rep, &format!("sm-rep-not-first@{at}"), &show_groups(&groups));
        rec.check(respects_edges(&flat, &self.adj, true), &format!("sm-order-violates-edge@{at}"), &format!("order={} adj={}", show_l(&flat), show_adj(&self.adj)));
        let enemy_in = self.enemies.iter().any(|&(a, b)| self.label[a] == self.label[b]);
        rec.check(!enemy_in, &format!("sm-enemies-merged@{at}"), &format!("groups={} enemies={}", show_groups(&groups), show_pairs(&self.enemies)));
        rec.check(!quotient_cyclic(&self.label, &self.adj), &format!("sm-quotient-cyclic@{at}"), &show_groups(&groups));
    }

    /// input-distribution histogram of the anchored `try_merge` branches, computed from the
    /// independent data (partition labels, node graph, group layout before the call)
    fn count_branches(&self, a: usize, b: usize, why: &str, before: &[Vec<usize>], rec: &mut Recorder) {
        if why == "noop" {
            rec.count(if a == b { "noop:same-node" } else { "noop:same-group" });
            return;
        }
        let n = self.keys.len();
        let pos_of = |x: usize| before.iter().position(|g| self.label[g[0]] == self.label[x]);
        let (Some(pa), Some(pb)) = (pos_of(a), pos_of(b)) else { return };
        let size = |x: usize| (0..n).filter(|&y| self.label[y] == self.label[x]).count();
        if why == "enemy" {
            let direct = self.enemies.iter().any(|&(x, y)| (x == a && y == b) || (x == b && y == a));
            rec.count(if direct { "enemy:declared-pair-itself" } else { "enemy:inherited-through-merges" });
            return;
        }
        // past the enemy check: `u` = the earlier group, `v` = the later one
        rec.count(if pa < pb { "order:u-given-first" } else { "order:swapped" });
        let (lo, hi) = (pa.min(pb), pa.max(pb));
        rec.count(&format!("window:groups={}", (hi - lo + 1).min(6)));
        rec.count(&format!("merge:sizes={}+{}", size(before[lo][0]).min(3), size(before[hi][0]).min(3)));
        let gl = |i: usize| self.label[before[i][0]];
        // quotient predecessor groups (by layout position) of the group at position i
        let qpreds = |i: usize| -> BTreeSet<usize> {
            let mut r = BTreeSet::new();
            for &x in &before[i] {
                for &p in &self.adj[x] {
                    if self.label[p] != gl(i) {
                        r.insert(before.iter().position(|g| self.label[g[0]] == self.label[p]).unwrap());
                    }
                }
            }
            r
        };
        let direct = qpreds(hi).contains(&lo);
        if direct {
            rec.count("cyclecheck:direct-u-v-edge-skipped");
        }
        if (lo..=hi).any(|i| qpreds(i).iter().any(|&p| p < lo)) {
            rec.count("cyclecheck:pred-group-outside-window-pruned");
        }
        if why == "cycle" {
            // fewest intermediate groups on a quotient path u -> .. -> v (BFS backwards from v)
            let mut dist: BTreeMap<usize, usize> = BTreeMap::new();
            let mut frontier = vec![hi];
            dist.insert(hi, 0);
            while !frontier.is_empty() {
                let mut next = vec![];
                for &x in &frontier {
                    for p in qpreds(x) {
                        if x == hi && p == lo {
                            continue;
                        }
                        if !dist.contains_key(&p) {
                            dist.insert(p, dist[&x] + 1);
                            next.push(p);
                        }
                    }
                }
                frontier = next;
            }
            if let Some(&d) = dist.get(&lo) {
                rec.count(&format!("cycle:intermediate-groups={}", (d - 1).min(4)));
            }
            if direct {
                rec.count("cycle:with-direct-edge-too");
            }
        }
    }

    /// expected answer of `try_merge(a, b)` from the independent data: (answer, reason)
    fn expected_merge(&self, a: usize, b: usize) -> (bool, &'static str) {
        let (la, lb) = (self.label[a], self.label[b]);
        if la == lb {
            return (true, "noop");
        }
        if self.enemies.iter().any(|&(x, y)| {
            (self.label[x] == la && self.label[y] == lb) || (self.label[x] == lb && self.label[y] == la)
        }) {
            return (false, "enemy");
        }
        let mut l2 = self.label.clone();
        relabel(&mut l2, a, b);
        if quotient_cyclic(&l2, &self.adj) { (false, "cycle") } else { (true, "merge") }
    }
}

struct Runner {
    obj: Obj,
    trues: u64,
    falses: u64,
    unions: u64,
    topo_edges: bool,
}

impl Runner {
    fn new() -> Self {
        Runner { obj: Obj::None, trues: 0, falses: 0, unions: 0, topo_edges: false }
    }

    fn exec(&mut self, line: &str, rec: &mut Recorder) -> String {
        let parts: Vec<&str> = line.split(' ').collect();
        match parts.as_slice() {
            ["topo", ids, adj] => {
                let (Some(ids), Some(adj)) = (parse_list(ids), parse_adj(adj)) else { return "bad-op".into() };
                if !adj_ok(&adj) || ids.iter().any(|&i| i >= adj.len()) {
                    return "bad-op".into();
                }
                self.topo(&ids, &adj, rec)
            }
            ["validate", order, adj] => {
                let (Some(order), Some(adj)) = (parse_list(order), parse_adj(adj)) else { return "bad-op".into() };
                if !adj_ok(&adj) || order.iter().any(|&i| i >= adj.len()) {
                    return "bad-op".into();
                }
                self.validate(&order, &adj, rec)
            }
            ["uf", n] => {
                let Some(n) = parse_nat(n) else { return "bad-op".into() };
                self.obj = Obj::Uf(UfObj { keys: make_keys(n), uf: UnionFind::with_capacity(n), label: (0..n).collect() });
                "ok".into()
            }
            ["union", a, b] => {
                let (Some(a), Some(b)) = (parse_nat(a), parse_nat(b)) else { return "bad-op".into() };
                let Obj::Uf(u) = &mut self.obj else { return "bad-op".into() };
                if a >= u.keys.len() || b >= u.keys.len() {
                    return "bad-op".into();
                }
                let before = key_index(&u.keys, u.uf.find(u.keys[a]));
                let r = key_index(&u.keys, u.uf.union(u.keys[a], u.keys[b]));
                relabel(&mut u.label, a, b);
                rec.check(r == before, "uf-union-rep", line);
                rec.check(r < u.label.len() && u.label[r] == u.label[a], "uf-find-not-member@union", line);
                self.unions += 1;
                rec.count("uf:union");
                Self::uf_oracle(u, rec);
                r.to_string()
            }
            ["find", a] => {
                let Some(a) = parse_nat(a) else { return "bad-op".into() };
                match &mut self.obj {
                    Obj::Uf(u) if a < u.keys.len() => {
                        let r = key_index(&u.keys, u.uf.find(u.keys[a]));
                        rec.check(r < u.label.len() && u.label[r] == u.label[a], "uf-find-not-member", line);
                        rec.count("uf:find");
                        Self::uf_oracle(u, rec);
                        r.to_string()
                    }
                    Obj::Sm(s) if a < s.keys.len() => {
                        let r = key_index(&s.keys, s.sm.find(s.keys[a]));
                        rec.check(r < s.label.len() && s.label[r] == s.label[a], "sm-find-not-member", line);
                        rec.count("sm:find");
                        r.to_string()
                    }
                    _ => "bad-op".into(),
                }
            }
            ["same", a, b] => {
                let (Some(a), Some(b)) = (parse_nat(a), parse_nat(b)) else { return "bad-op".into() };
                match &mut self.obj {
                    Obj::Uf(u) if a < u.keys.len() && b < u.keys.len() => {
                        let r = u.uf.same_set(u.keys[a], u.keys[b]);
                        rec.check(r == (u.label[a] == u.label[b]), "uf-same-wrong", line);
                        rec.count(if r { "uf:same=true" } else { "uf:same=false" });
                        r.to_string()
                    }
                    Obj::Sm(s) if a < s.keys.len() && b < s.keys.len() => {
                        let r = s.sm.same_set(s.keys[a], s.keys[b]);
                        rec.check(r == (s.label[a] == s.label[b]), "sm-same-set-wrong@same", line);
                        rec.count(if r { "sm:same=true" } else { "sm:same=false" });
                        r.to_string()
                    }
                    _ => "bad-op".into(),
                }
            }
            ["new", adj, en] => {
                let (Some(adj), Some(en)) = (parse_adj(adj), parse_pairs(en)) else { return "bad-op".into() };
                if !adj_ok(&adj) || en.iter().any(|&(a, b)| a >= adj.len() || b >= adj.len()) {
                    return "bad-op".into();
                }
                self.sm_new(adj, en, rec)
            }
            ["merge", a, b] => {
                let (Some(a), Some(b)) = (parse_nat(a), parse_nat(b)) else { return "bad-op".into() };
                let Obj::Sm(s) = &mut self.obj else { return "bad-op".into() };
                if a >= s.keys.len() || b >= s.keys.len() {
                    return "bad-op".into();
                }
                self.sm_merge(a, b, rec)
            }
            _ => "bad-op".into(),
        }
    }

    /// every `same`/`find` answer of the real union-find against the independent partition
    fn uf_oracle(u: &mut UfObj, rec: &mut Recorder) {
        let n = u.keys.len();
        let mut ok = true;
        let reps: Vec<usize> = (0..n).map(|a| key_index(&u.keys, u.uf.clone().find(u.keys[a]))).collect();
        for a in 0..n {
            for b in 0..n {
                if (reps[a] == reps[b]) != (u.label[a] == u.label[b]) {
                    ok = false;
                }
            }
        }
        rec.check(ok, "uf-connectivity-wrong", &format!("reps={} labels={}", show_l(&reps), show_l(&u.label)));
    }

    fn topo(&mut self, ids: &[usize], adj: &Adj, rec: &mut Recorder) -> String {
        let r = catch(AssertUnwindSafe(|| topo_sort(ids.iter().copied(), |k| adj[k].iter().copied())));
        let reach = reachable(ids, adj);
        let cyc = cyclic_on(&reach, &|x| adj[x].clone());
        if adj.iter().any(|l| !l.is_empty()) && adj.len() >= 3 {
            self.topo_edges = true;
        }
        match r {
            Ok(Ok(order)) => {
                rec.count("topo:ok");
                rec.check(!cyc, "topo-ok-on-cyclic", &format!("ids={} adj={}", show_l(ids), show_adj(adj)));
                let set: BTreeSet<usize> = order.iter().copied().collect();
                rec.check(set.len() == order.len() && set == reach, "topo-order-not-perm", &format!("ids={} adj={} order={}", show_l(ids), show_adj(adj), show_l(&order)));
                rec.check(respects_edges(&order, adj, false), "topo-order-violates-edge", &format!("ids={} adj={} order={}", show_l(ids), show_adj(adj), show_l(&order)));
                format!("ok {}", show_l(&order))
            }
            Ok(Err(cycle)) => {
                rec.count("topo:cyc");
                rec.count(&format!("topo:cyclen={}", cycle.len().min(6)));
                rec.check(cyc, "topo-err-on-acyclic", &format!("ids={} adj={}", show_l(ids), show_adj(adj)));
                rec.check(real_cycle(&cycle, adj), "topo-cycle-not-real", &format!("ids={} adj={} cycle={}", show_l(ids), show_adj(adj), show_l(&cycle)));
                format!("cyc {}", show_l(&cycle))
            }
            Err(_) => {
                rec.check(false, "topo-unexpected-panic", &format!("ids={} adj={}", show_l(ids), show_adj(adj)));
                "panic".into()
            }
        }
    }

    fn validate(&mut self, order: &[usize], adj: &Adj, rec: &mut Recorder) -> String {
        let r = catch(AssertUnwindSafe(|| validate_topo_sort(order.iter().copied(), |k| adj[k].iter().copied())));
        let set: BTreeSet<usize> = order.iter().copied().collect();
        let nodup = set.len() == order.len();
        let closed = order.iter().all(|&x| adj[x].iter().all(|p| set.contains(p)));
        let pos: BTreeMap<usize, usize> = order.iter().enumerate().map(|(i, &x)| (x, i)).collect();
        match r {
            Ok(Ok(())) => {
                rec.count("validate:ok");
                if nodup {
                    rec.check(closed && respects_edges(order, adj, false), "validate-ok-on-invalid", &format!("order={} adj={}", show_l(order), show_adj(adj)));
                }
                "ok".into()
            }
            Ok(Err((p, s))) => {
                rec.count("validate:err");
                if nodup {
                    let genuine = s < adj.len() && adj[s].contains(&p) && pos.contains_key(&p) && pos.contains_key(&s) && pos[&s] <= pos[&p];
                    rec.check(genuine, "validate-err-not-genuine", &format!("order={} adj={} got={p},{s}", show_l(order), show_adj(adj)));
                }
                format!("err {p},{s}")
            }
            Err(_) => {
                rec.count("validate:panic");
                // documented: panics if a predecessor is missing from the sort
                if nodup {
                    rec.check(!closed, "validate-panic-on-closed", &format!("order={} adj={}", show_l(order), show_adj(adj)));
                }
                "panic".into()
            }
        }
    }

    fn sm_new(&mut self, adj: Adj, en: Vec<(usize, usize)>, rec: &mut Recorder) -> String {
        let n = adj.len();
        let keys = make_keys(n);
        let all: BTreeSet<usize> = (0..n).collect();
        let cyc = cyclic_on(&all, &|x| adj[x].clone());
        let bad_pair = en.iter().any(|&(a, b)| a == b);
        let r = catch(AssertUnwindSafe(|| {
            // keys in slotmap insertion order, as `preds.keys()` in the callers
            SubgraphMerge::new(
                keys.iter().copied(),
                |k| adj[key_index(&keys, k)].iter().map(|&p| keys[p]).collect::<Vec<_>>(),
                en.iter().map(|&(a, b)| (keys[a], keys[b])),
            )
        }));
        let detail = format!("adj={} enemies={}", show_adj(&adj), show_pairs(&en));
        match r {
            Ok(Ok(sm)) => {
                rec.count("new:ok");
                rec.count(&format!("new:n={}", n.min(12)));
                rec.check(!cyc && !bad_pair, "sm-new-result-wrong@ok", &detail);
                let mut o = Box::new(SmObj { keys, sm, adj, enemies: en, label: (0..n).collect() });
                o.check_inv(rec, "new");
                let out = match o.groups() {
                    Some(g) => format!("ok {}", show_groups(&g)),
                    None => "ok panic".into(),
                };
                self.obj = Obj::Sm(o);
                out
            }
            Ok(Err(cycle)) => {
                rec.count("new:cyc");
                let c: Vec<usize> = cycle.iter().map(|&k| key_index(&keys, k)).collect();
                rec.check(cyc, "sm-new-result-wrong@cyc", &detail);
                rec.check(real_cycle(&c, &adj), "sm-new-cycle-not-real", &format!("{detail} cycle={}", show_l(&c)));
                self.obj = Obj::None;
                format!("cyc {}", show_l(&c))
            }
            Err(_) => {
                rec.count("new:panic");
                rec.check(!cyc && bad_pair, "sm-unexpected-panic@new", &detail);
                self.obj = Obj::None;
                "panic".into()
            }
        }
    }

    fn sm_merge(&mut self, a: usize, b: usize, rec: &mut Recorder) -> String {
        let Obj::Sm(s) = &mut self.obj else { unreachable!() };
        let (want, why) = s.expected_merge(a, b);
        let before = s.groups();
        let (ka, kb) = (s.keys[a], s.keys[b]);
        let r = catch(AssertUnwindSafe(|| s.sm.try_merge(ka, kb)));
        let detail = format!("adj={} enemies={} groups-before={} merge {a} {b}", show_adj(&s.adj), show_pairs(&s.enemies), before.as_ref().map(|g| show_groups(g)).unwrap_or("panic".into()));
        if let Some(bf) = &before {
            s.count_branches(a, b, why, bf, rec);
        }
        match r {
            Ok(ans) => {
                rec.count(&format!("merge:{}", why));
                rec.check(ans == want, &format!("sm-merge-result-wrong@expected-{why}"), &format!("{detail} got={ans}"));
                if ans {
                    relabel(&mut s.label, a, b);
                    self.trues += (why == "merge") as u64;
                } else {
                    self.falses += 1;
                }
                s.check_inv(rec, if ans { "merge-true" } else { "merge-false" });
                let after = s.groups();
                if !ans || why == "noop" {
                    rec.check(after == before, "sm-refused-changed-groups", &detail);
                } else if let (Some(bf), Some(af)) = (&before, &after) {
                    // did the window re-sort move groups other than the merged ones?
                    let la = s.label[a];
                    let rest_b: Vec<&Vec<usize>> = bf.iter().filter(|g| s.label[g[0]] != la).collect();
                    let rest_a: Vec<&Vec<usize>> = af.iter().filter(|g| s.label[g[0]] != la).collect();
                    rec.count(if rest_a == rest_b { "resort:others-kept" } else { "resort:others-moved" });
                }
                match after {
                    Some(g) => format!("{ans} {}", show_groups(&g)),
                    None => format!("{ans} panic"),
                }
            }
            Err(m) => {
                rec.check(false, "sm-unexpected-panic@merge", &format!("{detail} msg={m}"));
                self.obj = Obj::None;
                "panic".into()
            }
        }
    }
}

// ---------------------------------------------------------------- generation

/// digraph `code` over `n` nodes: bit (i*n + j) set = j is a predecessor of i (self loops iff `loops`)
fn graph_from_code(n: usize, code: u64, loops: bool) -> Adj {
    let mut adj = vec![vec![]; n];
    let mut bit = 0;
    for i in 0..n {
        for j in 0..n {
            if i == j && !loops {
                continue;
            }
            if code >> bit & 1 == 1 {
                adj[i].push(j);
            }
            bit += 1;
        }
    }
    adj
}
fn graph_bits(n: usize, loops: bool) -> u32 {
    (if loops { n * n } else { n * n - n }) as u32
}

fn perm(rng: &mut Rng, n: usize) -> Vec<usize> {
    let mut p: Vec<usize> = (0..n).collect();
    for i in (1..n).rev() {
        let j = rng.below(i as u64 + 1) as usize;
        p.swap(i, j);
    }
    p
}

/// random graph: DAG w.r.t. a random hidden order, plus `back` extra arbitrary edges
fn random_graph(rng: &mut Rng, n: usize, dens_num: u64, back: usize, messy: bool) -> Adj {
    let p = perm(rng, n);
    let mut adj = vec![vec![]; n];
    for i in 0..n {
        for j in 0..i {
            if rng.chance(dens_num, 10) {
                adj[p[i]].push(p[j]);
            }
        }
    }
    for _ in 0..back {
        if n > 0 {
            let a = rng.below(n as u64) as usize;
            let b = rng.below(n as u64) as usize;
            adj[a].push(b);
        }
    }
    for l in adj.iter_mut() {
        if messy {
            // duplicates and arbitrary order
            if !l.is_empty() && rng.chance(1, 3) {
                let d = *rng.pick(l);
                l.push(d);
            }
            let q = perm(rng, l.len());
            let c = l.clone();
            for (i, &qi) in q.iter().enumerate() {
                l[i] = c[qi];
            }
        } else {
            l.sort();
            l.dedup();
        }
    }
    adj
}

fn edges_of(adj: &Adj) -> Vec<(usize, usize)> {
    let mut v = vec![];
    for (x, ps) in adj.iter().enumerate() {
        for &p in ps {
            v.push((p, x));
        }
    }
    v
}

fn topo_lines(rng: &mut Rng, adj: &Adj, extra: bool) -> Vec<String> {
    let n = adj.len();
    let a = show_adj(adj);
    let all: Vec<usize> = (0..n).collect();
    let mut ls = vec![format!("topo {} {a}", show_l(&all))];
    if extra {
        let p = perm(rng, n);
        ls.push(format!("topo {} {a}", show_l(&p)));
        if n > 0 {
            // subset / duplicates
            let k = rng.range(1, n as u64) as usize;
            let mut sub: Vec<usize> = p[..k].to_vec();
            if rng.chance(1, 2) {
                sub.push(p[0]);
            }
            ls.push(format!("topo {} {a}", show_l(&sub)));
        }
        // validate: the order the real code returns (if any), and a random permutation
        if let Ok(o) = topo_sort(all.iter().copied(), |k| adj[k].iter().copied()) {
            ls.push(format!("validate {} {a}", show_l(&o)));
            if o.len() >= 2 {
                let mut o2 = o.clone();
                let i = rng.below(o2.len() as u64 - 1) as usize;
                o2.swap(i, i + 1);
                ls.push(format!("validate {} {a}", show_l(&o2)));
            }
        }
        let q = perm(rng, n);
        ls.push(format!("validate {} {a}", show_l(&q)));
        if n > 1 && rng.chance(1, 4) {
            ls.push(format!("validate {} {a}", show_l(&q[..n - 1])));
        }
    }
    ls
}

fn random_enemies(rng: &mut Rng, n: usize, allow_bad: bool) -> Vec<(usize, usize)> {
    let mut en = vec![];
    if n < 2 || rng.chance(1, 3) {
        return en;
    }
    let k = rng.range(1, n as u64) as usize;
    for _ in 0..k {
        let a = rng.below(n as u64) as usize;
        let mut b = rng.below(n as u64) as usize;
        if a == b && !(allow_bad && rng.chance(1, 20)) {
            b = (a + 1) % n;
        }
        en.push((a, b));
    }
    en
}

fn merge_lines(rng: &mut Rng, adj: &Adj, steps: usize) -> Vec<String> {
    let n = adj.len();
    let mut ls = vec![];
    if n == 0 {
        return ls;
    }
    let edges = edges_of(adj);
    let mut merged: Vec<(usize, usize)> = vec![];
    for _ in 0..steps {
        let (a, b) = match rng.below(10) {
            0..=4 if !edges.is_empty() => {
                let (p, x) = *rng.pick(&edges);
                if rng.chance(1, 2) { (p, x) } else { (x, p) }
            }
            5..=6 if !merged.is_empty() => *rng.pick(&merged),
            7 if !edges.is_empty() => {
                // two-hop pair p -> x -> y: merging p and y is a cycle through x unless x was absorbed;
                // after earlier merges p / y are often non-representative members of larger groups
                let (p, x) = *rng.pick(&edges);
                let outs: Vec<usize> = edges.iter().filter(|&&(q, _)| q == x).map(|&(_, y)| y).collect();
                let y = if outs.is_empty() { x } else { *rng.pick(&outs) };
                if rng.chance(1, 2) { (p, y) } else { (y, p) }
            }
            _ => (rng.below(n as u64) as usize, rng.below(n as u64) as usize),
        };
        merged.push((a, b));
        ls.push(format!("merge {a} {b}"));
        match rng.below(12) {
            0 => ls.push(format!("find {}", rng.below(n as u64))),
            1 => ls.push(format!("same {} {}", rng.below(n as u64), rng.below(n as u64))),
            _ => {}
        }
    }
    ls
}

/// every unordered pair once, random order and orientation
fn all_pairs_merge_lines(rng: &mut Rng, n: usize) -> Vec<String> {
    let mut pairs = vec![];
    for a in 0..n {
        for b in a + 1..n {
            pairs.push(if rng.chance(1, 2) { (a, b) } else { (b, a) });
        }
    }
    let q = perm(rng, pairs.len());
    q.iter().map(|&i| format!("merge {} {}", pairs[i].0, pairs[i].1)).collect()
}

fn uf_lines(rng: &mut Rng, n: usize, steps: usize) -> Vec<String> {
    let mut ls = vec![format!("uf {n}")];
    for _ in 0..steps {
        let a = rng.below(n as u64);
        let b = rng.below(n as u64);
        ls.push(match rng.below(10) {
            0..=3 => format!("union {a} {b}"),
            4..=5 => format!("find {a}"),
            _ => format!("same {a} {b}"),
        });
    }
    ls
}

const MALFORMED: &[&str] = &[
    "topo 0,1 -;0;x",
    "topo 0,7 -;0",
    "topo 0 -;5",
    "topo",
    "validate 0,1 -",
    "merge 0 99",
    "merge a b",
    "union 0 1 2",
    "find",
    "new -;0 0:9",
    "new -;0 0-1",
    "frobnicate 1 2",
    "uf x",
];

fn run_case(no: u64, tag: &str, lines: &[String], rec: &mut Recorder) {
    rec.case(no, tag);
    let mut r = Runner::new();
    for l in lines {
        let out = r.exec(l, rec);
        rec.line(l, &out);
    }
    if (r.trues >= 1 && r.falses >= 1) || r.unions >= 2 || r.topo_edges {
        rec.nontrivial();
    }
}

fn main() {
    let args = Args::parse();
    hv_common::quiet_panics();
    let mut rec = Recorder::new(
        "topo: digraph with >= 3 nodes and >= 1 edge; sm: at least one effective merge and one refused merge in the sequence; uf: >= 2 unions; distinct = distinct op-line sequences",
    );
    if args.mode != "c17" {
        eprintln!("unknown mode {}", args.mode);
        std::process::exit(2);
    }
    if let Some(p) = &args.replay {
        let lines = hv_common::read_lines(p);
        let mut cur: Vec<String> = vec![];
        let mut tag = String::new();
        let mut no = 0u64;
        let mut started = false;
        for l in lines {
            if let Some(rest) = l.strip_prefix("#case ") {
                if started {
                    run_case(no, &tag, &cur, &mut rec);
                    cur.clear();
                }
                started = true;
                let mut it = rest.splitn(2, ' ');
                no = it.next().unwrap().parse().unwrap_or(0);
                tag = it.next().unwrap_or("").to_string();
            } else {
                if !started {
                    started = true;
                }
                cur.push(l);
            }
        }
        if started {
            run_case(no, &tag, &cur, &mut rec);
        }
        rec.finish(&args.out);
        return;
    }

    let thorough = args.tier == "thorough";
    let root = Rng::new(args.seed);
    let mut no = 0u64;

    // ---- bounded-exhaustive digraphs through topo_sort
    // all digraphs with self loops on <= 3 nodes; all loop-free digraphs on 4 nodes;
    // thorough: all digraphs with loops on 4 nodes and all loop-free digraphs on 5 nodes.
    let mut ex: Vec<(usize, bool)> = vec![(0, true), (1, true), (2, true), (3, true), (4, false)];
    if thorough {
        ex.push((4, true));
        ex.push((5, false));
    }
    for (n, loops) in ex {
        let bits = graph_bits(n, loops);
        if n == 5 {
            // one case per 32 consecutive graphs (keeps the transcript short): 2^20 graphs in 2^15 cases
            let mut code = 0u64;
            while code < (1u64 << bits) {
                no += 1;
                let all: Vec<usize> = (0..n).collect();
                let ls: Vec<String> = (code..code + 32)
                    .map(|c| format!("topo {} {}", show_l(&all), show_adj(&graph_from_code(n, c, loops))))
                    .collect();
                run_case(no, &format!("kind=topo exhaustive n={n} batch"), &ls, &mut rec);
                code += 32;
            }
            continue;
        }
        for code in 0..(1u64 << bits) {
            let adj = graph_from_code(n, code, loops);
            no += 1;
            let mut rng = root.fork(0x1000_0000 + no);
            // extra id orders / validate lines on the small scopes only (keeps the stream bounded)
            let extra = n <= 3 || code % 16 == 0;
            let ls = topo_lines(&mut rng, &adj, extra);
            run_case(no, &format!("kind=topo exhaustive n={n}"), &ls, &mut rec);
        }
    }
    // quick: a seeded sample of 4-node digraphs with self loops and 5-node loop-free digraphs
    if !thorough {
        for i in 0..1500u64 {
            no += 1;
            let mut rng = root.fork(0x2000_0000 + i);
            let (n, loops) = if i % 2 == 0 { (4, true) } else { (5, false) };
            let code = rng.next_u64() & ((1u64 << graph_bits(n, loops)) - 1);
            let adj = graph_from_code(n, code, loops);
            let ls = topo_lines(&mut rng, &adj, i % 8 == 0);
            run_case(no, &format!("kind=topo sample n={n}"), &ls, &mut rec);
        }
    }

    // ---- bounded-exhaustive SubgraphMerge: every loop-free digraph on <= 3 (quick) / <= 4 (thorough)
    // nodes (cyclic ones exercise `new` -> cyc), several merge orders over all pairs, random enemy sets
    let sm_max = if thorough { 4 } else { 3 };
    for n in 1..=sm_max {
        let bits = graph_bits(n, false);
        let reps = if n == 4 { 6 } else if thorough { 12 } else { 6 };
        for code in 0..(1u64 << bits) {
            let adj = graph_from_code(n, code, false);
            for rep in 0..reps {
                no += 1;
                let mut rng = root.fork(0x3000_0000 + no);
                let en = if rep % 2 == 0 { vec![] } else { random_enemies(&mut rng, n, false) };
                let mut ls = vec![format!("new {} {}", show_adj(&adj), show_pairs(&en))];
                ls.extend(all_pairs_merge_lines(&mut rng, n));
                run_case(no, &format!("kind=sm exhaustive n={n}"), &ls, &mut rec);
            }
        }
    }
    if !thorough {
        // sample of 4-node loop-free digraphs
        for i in 0..600u64 {
            no += 1;
            let mut rng = root.fork(0x4000_0000 + i);
            let code = rng.next_u64() & ((1u64 << graph_bits(4, false)) - 1);
            let adj = graph_from_code(4, code, false);
            let en = if i % 2 == 0 { vec![] } else { random_enemies(&mut rng, 4, false) };
            let mut ls = vec![format!("new {} {}", show_adj(&adj), show_pairs(&en))];
            ls.extend(all_pairs_merge_lines(&mut rng, 4));
            run_case(no, "kind=sm sample n=4", &ls, &mut rec);
        }
    }

    // ---- bounded-exhaustive union-find: every sequence of <= 3 unions over 4 keys (3 in quick), then all queries
    {
        let k = if thorough { 4usize } else { 3 };
        let pairs: Vec<(usize, usize)> = (0..k).flat_map(|a| (0..k).map(move |b| (a, b))).collect();
        let np = pairs.len();
        for len in 0..=3u32 {
            for mut code in 0..np.pow(len) {
                let mut ls = vec![format!("uf {k}")];
                for _ in 0..len {
                    let (a, b) = pairs[code % np];
                    code /= np;
                    ls.push(format!("union {a} {b}"));
                }
                for a in 0..k {
                    for b in a + 1..k {
                        ls.push(format!("same {a} {b}"));
                    }
                }
                for a in 0..k {
                    ls.push(format!("find {a}"));
                }
                no += 1;
                run_case(no, "kind=uf exhaustive", &ls, &mut rec);
            }
        }
    }

    // ---- seeded random cases
    for i in 0..args.cases {
        let mut rng = root.fork(i);
        no += 1;
        let malformed = rng.chance(1, 50);
        match rng.below(10) {
            0..=2 => {
                let n = rng.range(3, if thorough { 14 } else { 10 }) as usize;
                let back = if rng.chance(1, 2) { 0 } else { rng.range(1, 3) as usize };
                let dens = rng.range(1, 6);
                let messy = rng.chance(1, 3);
                let adj = random_graph(&mut rng, n, dens, back, messy);
                let mut ls = topo_lines(&mut rng, &adj, true);
                if malformed {
                    ls.push(rng.pick(MALFORMED).to_string());
                }
                run_case(no, &format!("kind=topo random n={n}"), &ls, &mut rec);
            }
            3..=4 => {
                let n = rng.range(1, 8) as usize;
                let steps = rng.range(5, 40) as usize;
                let mut ls = uf_lines(&mut rng, n, steps);
                if malformed {
                    ls.push(rng.pick(MALFORMED).to_string());
                    ls.push(format!("find {n}"));
                }
                run_case(no, &format!("kind=uf random n={n}"), &ls, &mut rec);
            }
            _ => {
                let n = rng.range(2, if thorough { 12 } else { 9 }) as usize;
                let back = if rng.chance(1, 10) { rng.range(1, 2) as usize } else { 0 };
                let dens = rng.range(1, 6);
                let messy = rng.chance(1, 4);
                let adj = random_graph(&mut rng, n, dens, back, messy);
                let en = random_enemies(&mut rng, n, true);
                let mut ls = vec![];
                if malformed {
                    ls.push("merge 0 1".to_string());
                }
                ls.push(format!("new {} {}", show_adj(&adj), show_pairs(&en)));
                let steps = rng.range(5, 30) as usize;
                ls.extend(merge_lines(&mut rng, &adj, steps));
                if malformed {
                    ls.push(rng.pick(MALFORMED).to_string());
                    ls.push(format!("merge 0 {n}"));
                }
                run_case(no, &format!("kind=sm random n={n}"), &ls, &mut rec);
            }
        }
    }
    rec.finish(&args.out);
}
